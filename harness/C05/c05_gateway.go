package PKG

// C05: the HTTP gateway reaches the handlers through generated in-process clients
// (gripql.*DirectClient) that run the same interceptors as the gRPC server. For
// every method of every direct client: the interceptor is consulted exactly once,
// under the method name the gRPC path uses, before anything else happens. The table
// below is generated from gripql/gripql.pb.dgw.go (tools/gen_c05_gateway.py) and
// checked for completeness against the service descriptors on every run.

import (
	"context"
	"errors"

	"github.com/bmeg/grip/gripql"
	"google.golang.org/grpc"
)

func init() {
	vHarnesses["VerifH_C05_gateway"] = VerifH_C05_gateway
}

var c05gGot []string
var c05gDenied = errors.New("denied by the recording interceptor")

func c05gUnary(ctx context.Context, req interface{}, info *grpc.UnaryServerInfo, handler grpc.UnaryHandler) (interface{}, error) {
	c05gGot = append(c05gGot, info.FullMethod)
	return nil, c05gDenied
}

func c05gStream(srv interface{}, ss grpc.ServerStream, info *grpc.StreamServerInfo, handler grpc.StreamHandler) error {
	c05gGot = append(c05gGot, info.FullMethod)
	return c05gDenied
}

type c05gEntry struct {
	service, method string
	call            func() error
}

func c05gWait() {
	for i := 0; i < 100 && len(c05gGot) == 0; i++ {
		vYield()
	}
}

func c05gTable() []c05gEntry {
	ctx := context.Background()
	u, s := gripql.DirectUnaryInterceptor(c05gUnary), gripql.DirectStreamInterceptor(c05gStream)
	q := gripql.NewQueryDirectClient(nil, u, s)
	j := gripql.NewJobDirectClient(nil, u, s)
	e := gripql.NewEditDirectClient(nil, u, s)
	c := gripql.NewConfigureDirectClient(nil, u, s)
	_, _, _, _ = q, j, e, c
	return []c05gEntry{
		{"Query", "Traversal", func() error {
			st, err := q.Traversal(ctx, &gripql.GraphQuery{})
			if err != nil {
				return err
			}
			for {
				if _, err := st.Recv(); err != nil {
					return err
				}
			}
		}},
		{"Query", "GetVertex", func() error { _, err := q.GetVertex(ctx, &gripql.ElementID{}); return err }},
		{"Query", "GetEdge", func() error { _, err := q.GetEdge(ctx, &gripql.ElementID{}); return err }},
		{"Query", "GetTimestamp", func() error { _, err := q.GetTimestamp(ctx, &gripql.GraphID{}); return err }},
		{"Query", "GetSchema", func() error { _, err := q.GetSchema(ctx, &gripql.GraphID{}); return err }},
		{"Query", "GetMapping", func() error { _, err := q.GetMapping(ctx, &gripql.GraphID{}); return err }},
		{"Query", "ListGraphs", func() error { _, err := q.ListGraphs(ctx, &gripql.Empty{}); return err }},
		{"Query", "ListIndices", func() error { _, err := q.ListIndices(ctx, &gripql.GraphID{}); return err }},
		{"Query", "ListLabels", func() error { _, err := q.ListLabels(ctx, &gripql.GraphID{}); return err }},
		{"Query", "ListTables", func() error {
			st, err := q.ListTables(ctx, &gripql.Empty{})
			if err != nil {
				return err
			}
			for {
				if _, err := st.Recv(); err != nil {
					return err
				}
			}
		}},
		{"Job", "Submit", func() error { _, err := j.Submit(ctx, &gripql.GraphQuery{}); return err }},
		{"Job", "ListJobs", func() error {
			st, err := j.ListJobs(ctx, &gripql.GraphID{})
			if err != nil {
				return err
			}
			for {
				if _, err := st.Recv(); err != nil {
					return err
				}
			}
		}},
		{"Job", "SearchJobs", func() error {
			st, err := j.SearchJobs(ctx, &gripql.GraphQuery{})
			if err != nil {
				return err
			}
			for {
				if _, err := st.Recv(); err != nil {
					return err
				}
			}
		}},
		{"Job", "DeleteJob", func() error { _, err := j.DeleteJob(ctx, &gripql.QueryJob{}); return err }},
		{"Job", "GetJob", func() error { _, err := j.GetJob(ctx, &gripql.QueryJob{}); return err }},
		{"Job", "ViewJob", func() error {
			st, err := j.ViewJob(ctx, &gripql.QueryJob{})
			if err != nil {
				return err
			}
			for {
				if _, err := st.Recv(); err != nil {
					return err
				}
			}
		}},
		{"Job", "ResumeJob", func() error {
			st, err := j.ResumeJob(ctx, &gripql.ExtendQuery{})
			if err != nil {
				return err
			}
			for {
				if _, err := st.Recv(); err != nil {
					return err
				}
			}
		}},
		{"Edit", "AddVertex", func() error { _, err := e.AddVertex(ctx, &gripql.GraphElement{}); return err }},
		{"Edit", "AddEdge", func() error { _, err := e.AddEdge(ctx, &gripql.GraphElement{}); return err }},
		{"Edit", "BulkAdd", func() error {
			_, err := e.BulkAdd(ctx)
			c05gWait() // the interceptor runs in a goroutine of its own; a denied call never answers
			if err == nil {
				err = c05gDenied
			}
			return err
		}},
		{"Edit", "AddGraph", func() error { _, err := e.AddGraph(ctx, &gripql.GraphID{}); return err }},
		{"Edit", "DeleteGraph", func() error { _, err := e.DeleteGraph(ctx, &gripql.GraphID{}); return err }},
		{"Edit", "DeleteVertex", func() error { _, err := e.DeleteVertex(ctx, &gripql.ElementID{}); return err }},
		{"Edit", "DeleteEdge", func() error { _, err := e.DeleteEdge(ctx, &gripql.ElementID{}); return err }},
		{"Edit", "AddIndex", func() error { _, err := e.AddIndex(ctx, &gripql.IndexID{}); return err }},
		{"Edit", "DeleteIndex", func() error { _, err := e.DeleteIndex(ctx, &gripql.IndexID{}); return err }},
		{"Edit", "AddSchema", func() error { _, err := e.AddSchema(ctx, &gripql.Graph{}); return err }},
		{"Edit", "SampleSchema", func() error { _, err := e.SampleSchema(ctx, &gripql.GraphID{}); return err }},
		{"Edit", "AddMapping", func() error { _, err := e.AddMapping(ctx, &gripql.Graph{}); return err }},
		{"Configure", "StartPlugin", func() error { _, err := c.StartPlugin(ctx, &gripql.PluginConfig{}); return err }},
		{"Configure", "ListPlugins", func() error { _, err := c.ListPlugins(ctx, &gripql.Empty{}); return err }},
		{"Configure", "ListDrivers", func() error { _, err := c.ListDrivers(ctx, &gripql.Empty{}); return err }},
	}
}

// VerifH_C05_gateway: one method of one direct client per path.
func VerifH_C05_gateway() {
	table := c05gTable()
	// every method of the generated service tables has an entry
	for _, sd := range c05Services {
		var names []string
		for _, m := range sd.Methods {
			names = append(names, m.MethodName)
		}
		for _, st := range sd.Streams {
			names = append(names, st.StreamName)
		}
		for _, n := range names {
			found := false
			for _, t := range table {
				if "gripql."+t.service == sd.ServiceName && t.method == n {
					found = true
				}
			}
			vAssert("C05.gateway.table-complete", found)
		}
	}
	t := table[vChoice("method", len(table))]
	c05gGot = nil
	err := t.call()
	vReach("c05.gateway.called")
	want := "/gripql." + t.service + "/" + t.method
	vAssert("C05.gateway.interceptor-consulted-once-under-the-grpc-name", len(c05gGot) == 1 && c05gGot[0] == want)
	vAssert("C05.gateway.denial-reaches-the-caller", err != nil)
}

// context.WithValue checks its key through internal/reflectlite (unsafe pointer
// arithmetic the engine does not model); under the engine it is redirected to this
// equivalent value context.
type c05gValueCtx struct {
	context.Context
	key, val interface{}
}

func (c *c05gValueCtx) Value(key interface{}) interface{} {
	if c.key == key {
		return c.val
	}
	return c.Context.Value(key)
}

func c05gWithValue(parent context.Context, key, val interface{}) context.Context {
	return &c05gValueCtx{parent, key, val}
}
