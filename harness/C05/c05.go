package PKG

import (
	"context"
	"encoding/base64"
	"errors"
	"io"
	"strings"

	"github.com/bmeg/grip/gripql"
	"google.golang.org/grpc"
	"google.golang.org/grpc/metadata"
)

func init() {
	vHarnesses["VerifH_C05_unary"] = VerifH_C05_unary
	vHarnesses["VerifH_C05_stream"] = VerifH_C05_stream
	vHarnesses["VerifH_C05_bulk"] = VerifH_C05_bulk
	vHarnesses["VerifH_C05_basic"] = VerifH_C05_basic
	vHarnesses["VerifH_C05_sequence"] = VerifH_C05_sequence
}

// ---- stubs at the Authenticate / Access interfaces ----

type c05Auth struct {
	user string
	fail bool
}

func (a *c05Auth) Validate(md MetaData) (string, error) {
	if a.fail {
		return "", errors.New("bad credentials")
	}
	return a.user, nil
}

type c05Call struct {
	user, graph string
	op          Operation
	allowed     bool
}

type c05Access struct {
	calls []c05Call
	name  string
}

func (a *c05Access) Enforce(user string, graph string, operation Operation) error {
	allow := vNondetBool("allow")
	a.calls = append(a.calls, c05Call{user, graph, operation, allow})
	if !allow {
		return errors.New("denied")
	}
	return nil
}

// ---- the independent specification ----

// c05SpecOp: operation class by service and method name (not a copy of MethodMap).
func c05SpecOp(service, method string) Operation {
	switch service {
	case "gripql.Query":
		if method == "Traversal" {
			return Query
		}
		return Read
	case "gripql.Job":
		switch method {
		case "Submit", "ResumeJob":
			return Exec
		case "DeleteJob":
			return Write
		}
		return Read
	case "gripql.Edit":
		return Write
	case "gripql.Configure":
		return Admin
	}
	return ""
}

// c05Request builds a request message of the type the method takes, naming graph g.
func c05Request(service, method, g string) (interface{}, string) {
	switch service + "/" + method {
	case "gripql.Query/Traversal", "gripql.Job/Submit", "gripql.Job/SearchJobs":
		return &gripql.GraphQuery{Graph: g}, g
	case "gripql.Query/GetVertex", "gripql.Query/GetEdge", "gripql.Edit/DeleteVertex", "gripql.Edit/DeleteEdge":
		return &gripql.ElementID{Graph: g, Id: "x"}, g
	case "gripql.Query/GetTimestamp", "gripql.Query/GetSchema", "gripql.Query/GetMapping", "gripql.Query/ListIndices", "gripql.Query/ListLabels",
		"gripql.Job/ListJobs", "gripql.Edit/AddGraph", "gripql.Edit/DeleteGraph", "gripql.Edit/SampleSchema":
		return &gripql.GraphID{Graph: g}, g
	case "gripql.Query/ListGraphs", "gripql.Query/ListTables", "gripql.Configure/ListPlugins", "gripql.Configure/ListDrivers":
		return &gripql.Empty{}, "*"
	case "gripql.Configure/StartPlugin":
		return &gripql.PluginConfig{}, "*"
	case "gripql.Job/GetJob", "gripql.Job/DeleteJob", "gripql.Job/ViewJob":
		return &gripql.QueryJob{Graph: g, Id: "j"}, g
	case "gripql.Job/ResumeJob":
		return &gripql.ExtendQuery{Graph: g, SrcId: "j"}, g
	case "gripql.Edit/AddVertex", "gripql.Edit/AddEdge":
		return &gripql.GraphElement{Graph: g}, g
	case "gripql.Edit/AddIndex", "gripql.Edit/DeleteIndex":
		return &gripql.IndexID{Graph: g}, g
	case "gripql.Edit/AddSchema", "gripql.Edit/AddMapping":
		return &gripql.Graph{Graph: g}, g
	}
	return nil, g
}

var c05Services = []*grpc.ServiceDesc{&gripql.Query_ServiceDesc, &gripql.Job_ServiceDesc, &gripql.Edit_ServiceDesc, &gripql.Configure_ServiceDesc}

func c05Code(err error) string {
	if err == nil {
		return ""
	}
	s := err.Error()
	for _, c := range []string{"Unauthenticated", "PermissionDenied", "Unknown"} {
		if strings.Contains(s, "code = "+c) {
			return c
		}
	}
	return "other"
}

// VerifH_C05_unary: every unary method of the generated service tables.
func VerifH_C05_unary() {
	sd := c05Services[vChoice("service", len(c05Services))]
	vAssume(len(sd.Methods) > 0)
	m := sd.Methods[vChoice("method", len(sd.Methods))]
	full := "/" + sd.ServiceName + "/" + m.MethodName
	g := vSymID("graph", 'g', 'h')
	req, wantGraph := c05Request(sd.ServiceName, m.MethodName, g)
	vAssert("C05.harness-knows-request-type", req != nil)
	if req == nil {
		return
	}
	auth := &c05Auth{user: vSymID("user", 'u', 'w'), fail: vNondetBool("authfail")}
	access := &c05Access{}
	called := false
	handler := func(ctx context.Context, r interface{}) (interface{}, error) {
		called = true
		return "ok", nil
	}
	_, err := unaryAuthInterceptor(auth, access)(context.Background(), req, &grpc.UnaryServerInfo{FullMethod: full}, handler)
	mediated := false
	allAllowed := true
	for _, c := range access.calls {
		if c.user == auth.user && c.graph == wantGraph && c.op == c05SpecOp(sd.ServiceName, m.MethodName) && c.allowed {
			mediated = true
		}
		if !c.allowed {
			allAllowed = false
		}
	}
	// (DeleteIndex and ListPlugins were missing from MethodMap: fixed in /repo)
	vAssert("C05.unary.handler-implies-mediated", !called || (!auth.fail && mediated))
	vAssert("C05.unary.callable-when-permitted", called || auth.fail || !allAllowed)
	if auth.fail {
		vAssert("C05.unary.unauthenticated", !called && c05Code(err) == "Unauthenticated" && len(access.calls) == 0)
	} else if !allAllowed {
		vAssert("C05.unary.denied", !called && c05Code(err) == "PermissionDenied")
	}
	// with no accounts configured every exposed method is callable
	called = false
	cfg := &Config{}
	_, err2 := cfg.UnaryInterceptor()(context.Background(), req, &grpc.UnaryServerInfo{FullMethod: full}, handler)
	vAssert("C05.unary.open-without-accounts", called && err2 == nil)
}

// ---- streams ----

type c05Stream struct {
	query *gripql.GraphQuery
	elems []*gripql.GraphElement
	pos   int
}

func (s *c05Stream) SetHeader(metadata.MD) error  { return nil }
func (s *c05Stream) SendHeader(metadata.MD) error { return nil }
func (s *c05Stream) SetTrailer(metadata.MD)       {}
func (s *c05Stream) Context() context.Context     { return context.Background() }
func (s *c05Stream) SendMsg(m interface{}) error  { return nil }
func (s *c05Stream) RecvMsg(m interface{}) error {
	switch p := m.(type) {
	case *gripql.GraphQuery:
		p.Graph = s.query.Graph
		p.Query = s.query.Query
		return nil
	// the request types of the other server streams: the wire carries the graph name
	case *gripql.GraphID:
		p.Graph = s.query.Graph
		return nil
	case *gripql.QueryJob:
		p.Graph = s.query.Graph
		p.Id = "job"
		return nil
	case *gripql.ExtendQuery:
		p.Graph = s.query.Graph
		p.SrcId = "job"
		return nil
	case *gripql.Empty:
		return nil
	case *gripql.GraphElement:
		if s.pos >= len(s.elems) {
			return io.EOF
		}
		e := s.elems[s.pos]
		s.pos++
		p.Graph, p.Vertex, p.Edge = e.Graph, e.Vertex, e.Edge
		return nil
	}
	return errors.New("unexpected message type")
}

// VerifH_C05_stream: every streaming method of the generated service tables.
func VerifH_C05_stream() {
	sd := c05Services[vChoice("service", len(c05Services))]
	vAssume(len(sd.Streams) > 0)
	st := sd.Streams[vChoice("stream", len(sd.Streams))]
	vAssume(st.ServerStreams) // the client stream (BulkAdd) has its own harness
	full := "/" + sd.ServiceName + "/" + st.StreamName
	g := vSymID("graph", 'g', 'h')
	auth := &c05Auth{user: vSymID("user", 'u', 'w'), fail: vNondetBool("authfail")}
	access := &c05Access{}
	called := false
	handler := func(srv interface{}, stream grpc.ServerStream) error {
		called = true
		return nil
	}
	ss := &c05Stream{query: &gripql.GraphQuery{Graph: g}}
	err := streamAuthInterceptor(auth, access)(nil, ss, &grpc.StreamServerInfo{FullMethod: full, IsServerStream: true}, handler)
	wantGraph := g
	if st.StreamName == "ListTables" {
		wantGraph = "*"
	}
	mediated := false
	allAllowed := true
	for _, c := range access.calls {
		if c.user == auth.user && c.graph == wantGraph && c.op == c05SpecOp(sd.ServiceName, st.StreamName) && c.allowed {
			mediated = true
		}
		if !c.allowed {
			allAllowed = false
		}
	}
	vKnownFor("C05/job-streams-skip-policy", sd.ServiceName == "gripql.Job" || st.StreamName == "ListTables", "C05.stream.handler-implies-mediated")
	vAssert("C05.stream.handler-implies-mediated", !called || (!auth.fail && mediated))
	vAssert("C05.stream.callable-when-permitted", called || auth.fail || !allAllowed)
	if auth.fail {
		vAssert("C05.stream.unauthenticated", !called && c05Code(err) == "Unauthenticated")
	}
	called = false
	cfg := &Config{}
	err2 := cfg.StreamInterceptor()(nil, &c05Stream{query: &gripql.GraphQuery{Graph: g}}, &grpc.StreamServerInfo{FullMethod: full, IsServerStream: true}, handler)
	vAssert("C05.stream.open-without-accounts", called && err2 == nil)
}

// VerifH_C05_bulk: the streamed bulk write is filtered element by element.
func VerifH_C05_bulk() {
	N := vParam("N", 3)
	n := vChoice("len", N+1)
	var elems []*gripql.GraphElement
	for i := 0; i < n; i++ {
		elems = append(elems, &gripql.GraphElement{Graph: vSymID("g"+string(rune('0'+i)), 'g', 'h'), Vertex: &gripql.Vertex{Gid: "v" + string(rune('0'+i)), Label: "L"}})
	}
	auth := &c05Auth{user: "u", fail: vNondetBool("authfail")}
	access := &c05Access{}
	var delivered []*gripql.GraphElement
	called := false
	handler := func(srv interface{}, stream grpc.ServerStream) error {
		called = true
		for {
			var ge gripql.GraphElement
			if err := stream.RecvMsg(&ge); err != nil {
				return nil
			}
			delivered = append(delivered, &gripql.GraphElement{Graph: ge.Graph, Vertex: ge.Vertex})
		}
	}
	err := streamAuthInterceptor(auth, access)(nil, &c05Stream{elems: elems}, &grpc.StreamServerInfo{FullMethod: "/gripql.Edit/BulkAdd", IsClientStream: true}, handler)
	if auth.fail {
		vAssert("C05.bulk.unauthenticated", !called && c05Code(err) == "Unauthenticated" && len(delivered) == 0)
		return
	}
	vAssert("C05.bulk.handler-runs", called)
	// exactly the elements whose (user, graph, write) check was allowed, in order
	vAssert("C05.bulk.one-check-per-element", len(access.calls) == n)
	k := 0
	for i, c := range access.calls {
		vAssert("C05.bulk.check-arguments", c.user == "u" && c.graph == elems[i].Graph && c.op == Write)
		if c.allowed {
			ok := k < len(delivered) && delivered[k].Graph == elems[i].Graph && delivered[k].Vertex.Gid == elems[i].Vertex.Gid
			vAssert("C05.bulk.allowed-delivered-in-order", ok)
			k++
		}
	}
	vAssert("C05.bulk.denied-not-delivered", k == len(delivered))
}

// ---- the real BasicAuth (the Authenticate implementation shipped with grip) ----

// c05Decoded: what the base64 payload of the Authorization header decodes to.
// Symbolically base64.DecodeString is redirected to c05DecodeString (the codec is
// standard library code and not the subject); natively the header carries the
// real encoding.
var c05Decoded string
var c05DecodeFails bool

var c05Tokens = map[string]string{}

func c05DecodeString(enc *base64.Encoding, s string) ([]byte, error) {
	if p, ok := c05Tokens[s]; ok {
		return []byte(p), nil
	}
	if c05DecodeFails || s != "TOKEN" {
		return nil, errors.New("illegal base64 data")
	}
	return []byte(c05Decoded), nil
}

// VerifH_C05_basic: BasicAuth accepts exactly the configured (user, password)
// pairs, whatever the header carries.
func VerifH_C05_basic() {
	ba := BasicAuth{{User: "al", Password: "pw"}, {User: "bo", Password: "x"}}
	user := vNondetString("user", 2)
	pw := vNondetString("pw", 2)
	for i := 0; i < len(user); i++ {
		vAssume(user[i] != ':')
	}
	payload := user + ":" + pw
	shape := vChoice("header", 5)
	md := MetaData{}
	wantOK := false
	switch shape {
	case 0: // well-formed
		md["authorization"] = []string{c05Header(payload, false)}
		wantOK = (user == "al" && pw == "pw") || (user == "bo" && pw == "x")
	case 1: // capitalised key, as grpc-gateway forwards it
		md["Authorization"] = []string{c05Header(payload, false)}
		wantOK = (user == "al" && pw == "pw") || (user == "bo" && pw == "x")
	case 2: // no header at all
	case 3: // not a Basic header
		md["authorization"] = []string{"Bearer " + payload}
	default: // undecodable payload
		md["authorization"] = []string{c05Header(payload, true)}
	}
	got, err := ba.Validate(md)
	vReach("c05.basic.validated")
	vAssert("C05.basic.accept-iff-configured-pair", (err == nil) == wantOK)
	if err == nil {
		vAssert("C05.basic.returns-the-user", got == user)
	}
}

func c05Header(payload string, broken bool) string {
	if vSymbolic() {
		c05Decoded, c05DecodeFails = payload, broken
		return "Basic TOKEN"
	}
	if broken {
		return "Basic !!!not-base64!!!"
	}
	return "Basic " + base64.StdEncoding.EncodeToString([]byte(payload))
}

// c05HeaderN: the Authorization header of the i-th request of a sequence.
func c05HeaderN(i int, payload string) string {
	if vSymbolic() {
		tok := "TOKEN" + string(rune('0'+i))
		c05Tokens[tok] = payload
		return "Basic " + tok
	}
	return "Basic " + base64.StdEncoding.EncodeToString([]byte(payload))
}

type c05SeqStream struct {
	c05Stream
	ctx context.Context
}

func (s *c05SeqStream) Context() context.Context { return s.ctx }

// VerifH_C05_sequence: a sequence of requests through ONE pair of interceptors
// (as the server keeps them) with the real authenticators: what a request is
// allowed to do depends on the credentials it carries itself, never on those of
// an earlier request.
func VerifH_C05_sequence() {
	N := vParam("CALLS", 2)
	var auth Authenticate
	proxy := vChoice("authenticator", 2) == 1
	if proxy {
		auth = ProxyAuth{Field: "x-user"}
	} else {
		auth = BasicAuth{{User: "al", Password: "pw"}, {User: "bo", Password: "x"}}
	}
	access := &c05Access{}
	unary := unaryAuthInterceptor(auth, access)
	stream := streamAuthInterceptor(auth, access)
	for i := 0; i < N; i++ {
		nm := "call" + string(rune('0'+i))
		md := metadata.MD{}
		wantUser, wantOK := "", false
		switch vChoice(nm+".credentials", 4) {
		case 0:
			wantUser, wantOK = "al", true
		case 1:
			wantUser, wantOK = "bo", true
		case 2: // a wrong password / an empty proxy field
			if proxy {
				md["x-user"] = []string{}
			} else {
				pw := vNondetStringN(nm+".pw", 1)
				vAssume(pw != "x")
				md["authorization"] = []string{c05HeaderN(i, "bo:"+pw)}
			}
		default: // no credentials at all
		}
		if wantOK {
			if proxy {
				md["x-user"] = []string{wantUser}
			} else if wantUser == "al" {
				md["authorization"] = []string{c05HeaderN(i, "al:pw")}
			} else {
				md["authorization"] = []string{c05HeaderN(i, "bo:x")}
			}
		}
		ctx := metadata.NewIncomingContext(context.Background(), md)
		g := vSymID(nm+".graph", 'g', 'h')
		before := len(access.calls)
		called := false
		var err error
		if vChoice(nm+".kind", 2) == 0 {
			_, err = unary(ctx, &gripql.GraphID{Graph: g}, &grpc.UnaryServerInfo{FullMethod: "/gripql.Query/GetTimestamp"},
				func(ctx context.Context, r interface{}) (interface{}, error) { called = true; return "ok", nil })
		} else {
			ss := &c05SeqStream{c05Stream: c05Stream{query: &gripql.GraphQuery{Graph: g}}, ctx: ctx}
			err = stream(nil, ss, &grpc.StreamServerInfo{FullMethod: "/gripql.Query/Traversal", IsServerStream: true},
				func(srv interface{}, st grpc.ServerStream) error { called = true; return nil })
		}
		vReach("c05.sequence.called")
		if !wantOK {
			vAssert("C05.sequence.no-credentials-no-access", !called && c05Code(err) == "Unauthenticated" && len(access.calls) == before)
			continue
		}
		mediated := false
		own := true
		for _, c := range access.calls[before:] {
			if c.user != wantUser || c.graph != g {
				own = false
			}
			if c.allowed {
				mediated = true
			}
		}
		vAssert("C05.sequence.policy-asked-for-own-user", own && len(access.calls) > before)
		vAssert("C05.sequence.handler-implies-mediated", !called || mediated)
	}
}
