package PKG

import (
	"bytes"
	"context"

	"github.com/bmeg/grip/gdbi"
	"github.com/bmeg/grip/kvindex"
)

func init() {
	vHarnesses["VerifH_C04_reopen"] = VerifH_C04_reopen
	vHarnesses["VerifH_C04_crash"] = VerifH_C04_crash
}

func c04LabelScan(gi gdbi.GraphInterface, label string) []string {
	var out []string
	for id := range gi.(*KVInterfaceGDB).VertexLabelScan(context.Background(), label) {
		out = append(out, id)
	}
	return out
}

func (g *mGraph) idsWithLabel(label string) []string {
	var out []string
	for i, v := range g.vs {
		if v.label == label {
			out = append(out, g.vids[i])
		}
	}
	return out
}

// VerifH_C04_reopen: history ; reopen the same store ; history. Everything
// observable, including label-indexed lookups of elements written after the
// reopen, must equal the abstract graph (i.e. the run without the reopen).
func VerifH_C04_reopen() {
	D1 := vParam("D1", 1)
	D2 := vParam("D2", 1)
	kv := vNewKV()
	db := NewKVGraph(kv).(*KVGraph)
	if err := db.AddGraph("g"); err != nil {
		panic("AddGraph failed")
	}
	gi, _ := db.Graph("g")
	w := &c03World{kv: kv, db: db, gi: gi, model: &mGraph{}}
	for s := 0; s < D1 && !w.diverged; s++ {
		c03Step(w, "s"+string(rune('0'+s)))
	}
	if w.diverged {
		return
	}
	// close and reopen
	db2 := NewKVGraph(kv).(*KVGraph)
	graphs := db2.ListGraphs()
	vAssert("C04.reopen.graphs", len(graphs) == 1 && graphs[0] == "g")
	gi2, err := db2.Graph("g")
	if err != nil {
		vAssert("C04.reopen.graph-found", false)
		return
	}
	w.db, w.gi = db2, gi2
	c03Observe(w, "reopened")
	for s := 0; s < D2 && !w.diverged; s++ {
		c03Step(w, "t"+string(rune('0'+s)))
	}
	for _, l := range c03Labels() {
		vAssert("C04.labelscan", vSortedEq(c04LabelScan(w.gi, l), w.model.idsWithLabel(l)))
	}
	vReach("reopen.end")
}

// ---- crash consistency ----

// c04Invariant scans the raw store: adjacency entries and edge records must
// pair up, label-index entries must name existing elements, and existing
// vertices must be found through the label index.
func c04Invariant(kv *vKV, gi gdbi.GraphInterface, graph string) {
	for i := range kv.keys {
		k := kv.keys[i]
		switch k[0] {
		case 'e':
			g, eid, src, dst, label, et := EdgeKeyParse(k)
			if g == graph {
				vAssert("C04.inv.edge-has-src-entry", kv.HasKey(SrcEdgeKey(g, src, dst, eid, label, et)))
				vAssert("C04.inv.edge-has-dst-entry", kv.HasKey(DstEdgeKey(g, src, dst, eid, label, et)))
			}
		case 's':
			g, src, dst, eid, label, et := SrcEdgeKeyParse(k)
			if g == graph {
				vAssert("C04.inv.src-entry-has-edge", kv.HasKey(EdgeKey(g, eid, src, dst, label, et)))
			}
		case 'd':
			g, src, dst, eid, label, et := DstEdgeKeyParse(k)
			if g == graph {
				vAssert("C04.inv.dst-entry-has-edge", kv.HasKey(EdgeKey(g, eid, src, dst, label, et)))
			}
		case 'i':
			field, _, _, doc := kvindex.EntryKeyParse(k)
			if field == graph+".v.label" {
				vAssert("C04.inv.label-entry-names-vertex", gi.GetVertex(doc, false) != nil)
			}
			if field == graph+".e.label" {
				vAssert("C04.inv.label-entry-names-edge", gi.GetEdge(doc, false) != nil)
			}
		case 'v':
			g, vid := VertexKeyParse(k)
			if g == graph {
				v := gi.GetVertex(vid, true)
				found := false
				if v != nil {
					for _, x := range c04LabelScan(gi, v.Label) {
						if x == vid {
							found = true
						}
					}
				}
				vAssert("C04.inv.vertex-in-label-index", found)
			}
		}
	}
}

var _ = bytes.Equal

// VerifH_C04_crash: a fixed small graph, then one mutating call during which the
// process dies before the crashAt-th top-level store write; reopen; invariant.
func c04Has(l []string, s string) bool {
	for _, x := range l {
		if x == s {
			return true
		}
	}
	return false
}

func VerifH_C04_crash() {
	kv := vNewKV()
	db := NewKVGraph(kv).(*KVGraph)
	db.AddGraph("g")
	gi, _ := db.Graph("g")
	gi.AddVertex([]*gdbi.Vertex{{ID: "a", Label: "A", Data: map[string]interface{}{"k": 1.0}}})
	gi.AddVertex([]*gdbi.Vertex{{ID: "b", Label: "B", Data: map[string]interface{}{"k": 2.0}}})
	gi.AddEdge([]*gdbi.Edge{{ID: "e", From: "a", To: "b", Label: "A", Data: map[string]interface{}{}}})
	// a second edge between a and b (its id is outside every alphabet): deleting a or b
	// removes two key triples, which crosses the delete batch boundary once that is
	// scaled down (const_rewrite)
	// (natively the real buffer size applies: NATIVE_EXTRA_EDGES such edges are written)
	extra := vParam("NATIVE_EXTRA_EDGES", 1)
	for i := 0; i < extra; i++ {
		uid := "u"
		for n := i; n > 0; n /= 10 {
			uid += string(rune('0' + n%10))
		}
		gi.AddEdge([]*gdbi.Edge{{ID: uid, From: "a", To: "b", Label: "B", Data: map[string]interface{}{}}})
	}
	// z and y are outside every alphabet: no symbolic operation targets them
	gi.AddVertex([]*gdbi.Vertex{{ID: "z", Label: "Z", Data: map[string]interface{}{"k": 3.0}}})
	gi.AddEdge([]*gdbi.Edge{{ID: "y", From: "z", To: "z", Label: "Z", Data: map[string]interface{}{}}})
	op := vChoice("op", 8)
	crash := vChoice("crashAt", 10)
	kv.crashAt = kv.writes + crash
	switch op {
	case 0:
		v, _ := c03Vertex("v")
		gi.AddVertex([]*gdbi.Vertex{v})
	case 1:
		e, _ := c03Edge("e")
		gi.AddEdge([]*gdbi.Edge{e})
	case 2:
		v, _ := c03Vertex("bv")
		e, _ := c03Edge("be")
		ch := make(chan *gdbi.GraphElement, 2)
		ch <- &gdbi.GraphElement{Graph: "g", Vertex: v}
		ch <- &gdbi.GraphElement{Graph: "g", Edge: e}
		close(ch)
		gi.BulkAdd(ch)
	case 3:
		vKnownFor("C03/delvertex-leaves-label-entry", true, "C04.inv.label-entry-names-vertex")
		vKnownFor("C03/deledge-leaves-label-entry", true, "C04.inv.label-entry-names-edge")
		gi.DelVertex(c03Pick("dv", []string{"a", "b"}))
	case 4:
		vKnownFor("C03/deledge-leaves-label-entry", true, "C04.inv.label-entry-names-edge")
		vKnown("C04/deledge-not-atomic", kv.crashAt-kv.writes == 1 || kv.crashAt-kv.writes == 2)
		gi.DelEdge("e")
	case 5:
		db.AddGraph("h")
	case 6:
		// the listed finding is about a graph that is still listed after the crash and has
		// lost part of its keys; a graph that is no longer listed must have left nothing
		// behind (C04.deleted-graph-leaves-no-elements is outside the region)
		vKnownFor("C04/deletegraph-not-atomic", crash >= 1 && crash <= 9, "C04.inv.dst-entry-has-edge,C04.inv.src-entry-has-edge,C04.inv.edge-has-dst-entry,C04.inv.edge-has-src-entry,C04.inv.label-entry-names-edge,C04.inv.label-entry-names-vertex,C04.inv.vertex-in-label-index,C04.crash.usable-after-restart,C04.labelscan")
		db.DeleteGraph("g")
	case 7:
		// re-adding an edge id with other endpoints (known to leave the old key triple, consistent though)
		gi.AddEdge([]*gdbi.Edge{{ID: "e", From: "b", To: "a", Label: "B", Data: map[string]interface{}{}}})
	}
	crashed := kv.crashed
	// restart
	kv.crashAt = -1
	kv.crashed = false
	db2 := NewKVGraph(kv).(*KVGraph)
	gi2, err := db2.Graph("g")
	if op == 6 {
		if err != nil {
			vReach("crash.graph-deleted")
			// the graph is gone: nothing of it may remain visible
			for i := range kv.keys {
				k := kv.keys[i]
				if k[0] == 'v' || k[0] == 'e' || k[0] == 's' || k[0] == 'd' {
					vAssert("C04.deleted-graph-leaves-no-elements", !bytes.HasPrefix(k[1:], []byte{0, 'g', 0}))
				}
			}
			return
		}
	} else {
		vAssert("C04.crash.graph-survives", err == nil)
		if err != nil {
			return
		}
	}
	if crashed {
		vReach("crash.happened")
	} else {
		vReach("crash.none")
	}
	c04Invariant(kv, gi2, "g")
	// life goes on after the crash: whatever graph is listed now is fully usable, i.e.
	// elements written from here on are found through the label index too (a graph
	// created by a crashed AddGraph is either absent or complete)
	for _, name := range []string{"g", "h"} {
		if gx, err := db2.Graph(name); err == nil {
			gx.AddVertex([]*gdbi.Vertex{{ID: "w", Label: "W", Data: map[string]interface{}{}}})
			gx.AddEdge([]*gdbi.Edge{{ID: "x", From: "w", To: "w", Label: "X", Data: map[string]interface{}{}}})
			scan := c16LabelScan(gx, "W")
			vl, _ := gx.ListVertexLabels()
			el, _ := gx.ListEdgeLabels()
			vAssert("C04.crash.usable-after-restart", len(scan) == 1 && scan[0] == "w" && c04Has(vl, "W") && c04Has(el, "X"))
		}
	}
	// z and y were acknowledged before the crash and are not the target of the crashed call
	if op != 6 {
		z := gi2.GetVertex("z", true)
		y := gi2.GetEdge("y", true)
		vAssert("C04.crash.acknowledged-survives", z != nil && z.Label == "Z" && y != nil && y.From == "z" && y.To == "z" && y.Label == "Z")
	}
}
