package PKG

// scalar JSON equality shared by oracles
func c08EqLocal(a, b interface{}) bool {
	switch x := a.(type) {
	case nil:
		return b == nil
	case bool:
		y, ok := b.(bool)
		return ok && x == y
	case float64:
		y, ok := b.(float64)
		return ok && x == y
	case string:
		y, ok := b.(string)
		return ok && x == y
	}
	return false
}
