package PKG

import (
	"bytes"
	"context"

	"github.com/bmeg/grip/gdbi"
	"github.com/bmeg/grip/gripql"
)

func init() {
	vHarnesses["VerifH_C16_keys"] = VerifH_C16_keys
	vHarnesses["VerifH_C16_vertex"] = VerifH_C16_vertex
	vHarnesses["VerifH_C16_edge"] = VerifH_C16_edge
}

func c16HasByte(s string, b byte) bool {
	for i := 0; i < len(s); i++ {
		if s[i] == b {
			return true
		}
	}
	return false
}

// c16Ident is an arbitrary string of <= L bytes or one of the words the storage
// layer uses internally.
func c16Ident(name string, L int) string {
	words := []string{"label", "v", "e", "g", "data", "p"}
	k := vChoice(name+".word", len(words)+1)
	if k == 0 {
		return vNondetString(name, L)
	}
	return words[k-1]
}

func c16NUL(ss ...string) bool {
	r := false
	for _, s := range ss {
		if c16HasByte(s, 0) {
			r = true
		}
	}
	return r
}

// VerifH_C16_keys: for every identifier tuple the write path accepts, each key
// family parses back to the tuple, and scan prefixes capture exactly their own keys.
func VerifH_C16_keys() {
	L := vParam("L", 2)
	fam := vChoice("family", 4)
	g := vNondetString("g", L)
	if gripql.ValidateGraphName(g) != nil {
		return
	}
	switch fam {
	case 0: // graph key
		g2 := vNondetString("g2", L)
		if gripql.ValidateGraphName(g2) != nil {
			return
		}
		vKnown("C16/nul-byte", c16NUL(g, g2))
		vAssert("C16.graphkey.roundtrip", GraphKeyParse(GraphKey(g)) == g)
		vAssert("C16.graphkey.injective", bytes.Equal(GraphKey(g), GraphKey(g2)) == (g == g2))
	case 1: // vertex key
		id := vNondetString("id", L)
		id2 := vNondetString("id2", L)
		g2 := vNondetString("g2", L)
		v := &gripql.Vertex{Gid: id, Label: "L"}
		v2 := &gripql.Vertex{Gid: id2, Label: "L"}
		if v.Validate() != nil || v2.Validate() != nil || gripql.ValidateGraphName(g2) != nil {
			return
		}
		vKnown("C16/nul-byte", c16NUL(g, g2, id, id2))
		pg, pid := VertexKeyParse(VertexKey(g, id))
		vAssert("C16.vertexkey.roundtrip", pg == g && pid == id)
		same := g == g2 && id == id2
		vAssert("C16.vertexkey.injective", bytes.Equal(VertexKey(g, id), VertexKey(g2, id2)) == same)
		vAssert("C16.vertexkey.listprefix", bytes.HasPrefix(VertexKey(g, id), VertexListPrefix(g2)) == (g == g2))
	case 2: // edge key and its lookup prefix
		id := vNondetString("id", L)
		src := vNondetString("src", L)
		dst := vNondetString("dst", L)
		lbl := vNondetString("label", L)
		id2 := vNondetString("id2", L)
		e := &gripql.Edge{Gid: id, From: src, To: dst, Label: lbl}
		e2 := &gripql.Edge{Gid: id2, From: "a", To: "b", Label: "L"}
		if e.Validate() != nil || e2.Validate() != nil {
			return
		}
		vKnown("C16/nul-byte", c16NUL(g, id, src, dst, lbl, id2))
		k := EdgeKey(g, id, src, dst, lbl, edgeSingle)
		pg, pid, ps, pd, pl, pt := EdgeKeyParse(k)
		vAssert("C16.edgekey.roundtrip", pg == g && pid == id && ps == src && pd == dst && pl == lbl && pt == edgeSingle)
		vAssert("C16.edgekey.idprefix", bytes.HasPrefix(k, EdgeKeyPrefix(g, id2)) == (id == id2))
		vAssert("C16.edgekey.listprefix", bytes.HasPrefix(k, EdgeListPrefix(g)))
	default: // adjacency keys
		id := vNondetString("id", L)
		src := vNondetString("src", L)
		dst := vNondetString("dst", L)
		lbl := vNondetString("label", L)
		v := vNondetString("v", L)
		e := &gripql.Edge{Gid: id, From: src, To: dst, Label: lbl}
		pv := &gripql.Vertex{Gid: v, Label: "L"}
		if e.Validate() != nil || pv.Validate() != nil {
			return
		}
		vKnown("C16/nul-byte", c16NUL(g, id, src, dst, lbl, v))
		sk := SrcEdgeKey(g, src, dst, id, lbl, edgeSingle)
		dk := DstEdgeKey(g, src, dst, id, lbl, edgeSingle)
		g1, s1, d1, e1, l1, t1 := SrcEdgeKeyParse(sk)
		vAssert("C16.srckey.roundtrip", g1 == g && s1 == src && d1 == dst && e1 == id && l1 == lbl && t1 == edgeSingle)
		g2, s2, d2, e2, l2, t2 := DstEdgeKeyParse(dk)
		vAssert("C16.dstkey.roundtrip", g2 == g && s2 == src && d2 == dst && e2 == id && l2 == lbl && t2 == edgeSingle)
		vAssert("C16.srckey.vertexprefix", bytes.HasPrefix(sk, SrcEdgePrefix(g, v)) == (src == v))
		vAssert("C16.dstkey.vertexprefix", bytes.HasPrefix(dk, DstEdgePrefix(g, v)) == (dst == v))
		vAssert("C16.srckey.exactprefix", bytes.HasPrefix(sk, SrcEdgeKeyPrefix(g, src, dst, id)))
		vAssert("C16.dstkey.exactprefix", bytes.HasPrefix(dk, DstEdgeKeyPrefix(g, src, dst, id)))
	}
}

// ---- write then read through the real kvgraph over the ordered-map model ----

func c16Graph(kv *vKV, name string) (*KVGraph, gdbi.GraphInterface) {
	db := NewKVGraph(kv).(*KVGraph)
	if err := db.AddGraph(name); err != nil {
		panic("AddGraph failed: " + err.Error())
	}
	gi, err := db.Graph(name)
	if err != nil {
		panic("Graph failed: " + err.Error())
	}
	return db, gi
}

func c16Vertices(gi gdbi.GraphInterface) []*gdbi.Vertex {
	var out []*gdbi.Vertex
	for v := range gi.GetVertexList(context.Background(), true) {
		out = append(out, v)
	}
	return out
}

func c16Edges(gi gdbi.GraphInterface) []*gdbi.Edge {
	var out []*gdbi.Edge
	for e := range gi.GetEdgeList(context.Background(), true) {
		out = append(out, e)
	}
	return out
}

func c16LabelScan(gi gdbi.GraphInterface, label string) []string {
	var out []string
	for id := range gi.(*KVInterfaceGDB).VertexLabelScan(context.Background(), label) {
		out = append(out, id)
	}
	return out
}

func c16In(ss []string, s string) bool {
	for _, x := range ss {
		if x == s {
			return true
		}
	}
	return false
}

// VerifH_C16_vertex: an accepted vertex reads back identical, addresses only itself,
// and leaves a previously present vertex untouched; a refused one changes nothing.
func VerifH_C16_vertex() {
	L := vParam("L", 2)
	kv := vNewKV()
	_, gi := c16Graph(kv, "g")
	_, hi := c16Graph(kv, "h") // a second graph on the same store
	pre := &gdbi.Vertex{ID: "p", Label: "P", Data: map[string]interface{}{"k": "v"}}
	if err := gi.AddVertex([]*gdbi.Vertex{pre}); err != nil {
		panic("pre-existing vertex refused")
	}
	id := c16Ident("id", L)
	label := c16Ident("label", L)
	val := vGenScalar("val", 1)
	vAssume(id != "p")
	vKnown("C16/nul-byte", c16NUL(id, label))
	vKnown("C16/label-named-label", label == "label")
	nv := &gdbi.Vertex{ID: id, Label: label, Data: map[string]interface{}{"k": val}}
	err := gi.AddVertex([]*gdbi.Vertex{nv})
	vs := c16Vertices(gi)
	got := gi.GetVertex(id, true)
	p2 := gi.GetVertex("p", true)
	vAssert("C16.vertex.pre-unchanged", p2 != nil && p2.ID == "p" && p2.Label == "P" && len(p2.Data) == 1 && p2.Data["k"] == "v")
	vAssert("C16.vertex.other-graph-empty", len(c16Vertices(hi)) == 0 && hi.GetVertex(id, true) == nil)
	if err != nil {
		vReach("vertex.refused")
		vAssert("C16.vertex.refused-unchanged", got == nil && len(vs) == 1 && vs[0].ID == "p")
		return
	}
	vReach("vertex.accepted")
	vAssert("C16.vertex.readback", got != nil && got.ID == id && got.Label == label && len(got.Data) == 1 && c08EqLocal(got.Data["k"], val))
	vAssert("C16.vertex.listing", len(vs) == 2 && ((vs[0].ID == "p" && vs[1].ID == id && vs[1].Label == label) || (vs[1].ID == "p" && vs[0].ID == id && vs[0].Label == label)))
	scan := c16LabelScan(gi, label)
	labels, _ := gi.ListVertexLabels()
	if label == "P" {
		vAssert("C16.vertex.labelscan-shared", len(scan) == 2 && c16In(scan, id) && c16In(scan, "p"))
		vAssert("C16.vertex.labels-shared", len(labels) == 1 && labels[0] == "P")
	} else {
		vAssert("C16.vertex.labelscan", len(scan) == 1 && scan[0] == id)
		vAssert("C16.vertex.labelscan-pre", len(c16LabelScan(gi, "P")) == 1)
		vAssert("C16.vertex.labels", len(labels) == 2 && c16In(labels, "P") && c16In(labels, label))
	}
}

func c16OutEdges(gi gdbi.GraphInterface, id string, load bool) []*gdbi.Edge {
	req := make(chan gdbi.ElementLookup, 1)
	req <- gdbi.ElementLookup{ID: id}
	close(req)
	var out []*gdbi.Edge
	for r := range gi.GetOutEdgeChannel(context.Background(), req, load, false, nil) {
		out = append(out, r.Edge)
	}
	return out
}

func c16InEdges(gi gdbi.GraphInterface, id string, load bool) []*gdbi.Edge {
	req := make(chan gdbi.ElementLookup, 1)
	req <- gdbi.ElementLookup{ID: id}
	close(req)
	var out []*gdbi.Edge
	for r := range gi.GetInEdgeChannel(context.Background(), req, load, false, nil) {
		out = append(out, r.Edge)
	}
	return out
}

// VerifH_C16_edge: the same for edges, including both adjacency directions.
func VerifH_C16_edge() {
	L := vParam("L", 2)
	kv := vNewKV()
	_, gi := c16Graph(kv, "g")
	pre := &gdbi.Edge{ID: "p", From: "a", To: "b", Label: "P", Data: map[string]interface{}{}}
	if err := gi.AddEdge([]*gdbi.Edge{pre}); err != nil {
		panic("pre-existing edge refused")
	}
	id := c16Ident("id", L)
	src := vNondetString("src", L)
	dst := vNondetString("dst", L)
	label := c16Ident("label", L)
	vAssume(id != "p")
	vKnown("C16/nul-byte", c16NUL(id, src, dst, label))
	vKnown("C16/label-named-label", label == "label")
	ne := &gdbi.Edge{ID: id, From: src, To: dst, Label: label, Data: map[string]interface{}{"k": "v"}}
	err := gi.AddEdge([]*gdbi.Edge{ne})
	es := c16Edges(gi)
	got := gi.GetEdge(id, true)
	p2 := gi.GetEdge("p", true)
	vAssert("C16.edge.pre-unchanged", p2 != nil && p2.ID == "p" && p2.From == "a" && p2.To == "b" && p2.Label == "P")
	if err != nil {
		vReach("edge.refused")
		vAssert("C16.edge.refused-unchanged", got == nil && len(es) == 1 && es[0].ID == "p")
		return
	}
	vReach("edge.accepted")
	vAssert("C16.edge.readback", got != nil && got.ID == id && got.From == src && got.To == dst && got.Label == label && len(got.Data) == 1 && got.Data["k"] == "v")
	vAssert("C16.edge.listing", len(es) == 2)
	out := c16OutEdges(gi, src, true)
	nOut := 1
	if src == "a" {
		nOut = 2
	}
	okOut := false
	for _, e := range out {
		if e.ID == id && e.From == src && e.To == dst && e.Label == label {
			okOut = true
		}
	}
	vAssert("C16.edge.out", len(out) == nOut && okOut)
	in := c16InEdges(gi, dst, false)
	nIn := 1
	if dst == "b" {
		nIn = 2
	}
	okIn := false
	for _, e := range in {
		if e.ID == id && e.From == src && e.To == dst && e.Label == label {
			okIn = true
		}
	}
	vAssert("C16.edge.in", len(in) == nIn && okIn)
}
