package PKG

import (
	"context"

	"github.com/bmeg/grip/engine/pipeline"
	"github.com/bmeg/grip/gdbi"
	"github.com/bmeg/grip/gripql"
)

func init() {
	vHarnesses["VerifH_C11_resume"] = VerifH_C11_resume
}

func c11MarksEq(a, b map[string]gdbi.DataType) bool {
	if len(a) != len(b) {
		return false
	}
	for k, v := range a {
		w, ok := b[k]
		if !ok || v != w {
			return false
		}
	}
	return true
}

// VerifH_C11_resume: resuming a stored traversal s1 with extra steps s2 types and
// evaluates like the concatenated traversal s1 ++ s2 on the unchanged graph.
func VerifH_C11_resume() {
	N1 := vParam("N1", 2)
	N2 := vParam("N2", 2)
	g := c02Graph(1)
	g.honourLoad = false
	g.compiler = func(g *vGraph) gdbi.Compiler { return NewCompiler(g, IndexStartOptimize) }
	var s1 []*gripql.GraphStatement
	if vChoice("start", 2) == 0 {
		s1 = append(s1, sV())
	} else {
		s1 = append(s1, sE())
	}
	n1 := vChoice("len1", N1)
	marked := false
	for i := 0; i < n1; i++ {
		s, kind := c02Stmt("p"+string(rune('0'+i)), false)
		// marks are defined before use (the property's premise for well-typed traversals)
		vAssume(kind != "select" || marked)
		marked = marked || kind == "as"
		s1 = append(s1, s)
	}
	n2 := 1 + vChoice("len2", N2)
	var s2 []*gripql.GraphStatement
	for i := 0; i < n2; i++ {
		s, kind := c02Stmt("r"+string(rune('0'+i)), false)
		vAssume(kind != "select" || marked)
		marked = marked || kind == "as"
		s2 = append(s2, s)
	}
	comp := g.Compiler()
	p1, err1 := comp.Compile(s1, nil)
	if err1 != nil {
		return // an invalid job is never stored
	}
	whole, errW := comp.Compile(append(append([]*gripql.GraphStatement{}, s1...), s2...), nil)
	marks := map[string]gdbi.DataType{}
	for k, v := range p1.MarkTypes() {
		marks[k] = v
	}
	ext, errE := comp.Compile(s2, &gdbi.CompileOptions{PipelineExtension: p1.DataType(), ExtensionMarkTypes: marks})
	vAssert("C11.resume.accept-agree", (errW == nil) == (errE == nil))
	if errW != nil || errE != nil {
		return
	}
	vAssert("C11.resume.type-agree", whole.DataType() == ext.DataType() && c11MarksEq(whole.MarkTypes(), ext.MarkTypes()))
	// results: the stored travelers of s1 fed into the extension = the whole traversal
	man := &vManager{}
	var stored []gdbi.Traveler
	for t := range pipeline.Start(context.Background(), p1, man, 2, nil, nil) {
		if !t.IsSignal() {
			stored = append(stored, t)
		}
	}
	in := make(chan gdbi.Traveler, len(stored)+1)
	for _, t := range stored {
		in <- t
	}
	close(in)
	var got []*gripql.QueryResult
	for t := range pipeline.Start(context.Background(), ext, man, 2, in, func() {}) {
		if !t.IsSignal() {
			got = append(got, pipeline.Convert(g, ext.DataType(), ext.MarkTypes(), t))
		}
	}
	want := vRunPipe(g, whole, 2)
	vReach("c11.resumed")
	vAssert("C11.resume.rows-equal", c02RowsEq(got, want))
}
