package PKG

// Job storage over an in-memory file system: spool, restart (a second
// NewFSJobStorage on the same directory), list / status / read back / search /
// delete, restart again. Under symbolic execution the os / ioutil / filepath
// calls of jobstorage/storage.go are redirected to the c11* functions below
// (config.json "redirects"); natively (replay) the real file system in a
// temporary directory and the real sanitize.Name / hashstructure.Hash are used.

import (
	"context"
	"errors"
	"io"
	"os"
	"sort"
	"strings"

	"github.com/bmeg/grip/gdbi"
	"github.com/bmeg/grip/gripql"
	"github.com/mitchellh/hashstructure/v2"
	"google.golang.org/protobuf/types/known/structpb"
)

func init() {
	vHarnesses["VerifH_C11_restart"] = VerifH_C11_restart
}

// ---- the in-memory file system ----

type c11File struct {
	name string
	data []byte
}

type c11Handle struct {
	f   *c11File
	pos int
}

var c11Files = map[string]*c11File{}
var c11Dirs = map[string]bool{}
var c11Handles = map[*os.File]*c11Handle{}
var c11Temp = 0
var c11ErrNotExist = errors.New("file does not exist")

func c11Stat(name string) (os.FileInfo, error) {
	if c11Dirs[name] || c11Files[name] != nil {
		return nil, nil
	}
	return nil, c11ErrNotExist
}
func c11IsNotExist(err error) bool { return err == c11ErrNotExist }
func c11MkdirAll(path string, perm os.FileMode) error {
	for p := path; p != "" && p != "/" && p != "."; {
		c11Dirs[p] = true
		i := strings.LastIndex(p, "/")
		if i <= 0 {
			break
		}
		p = p[:i]
	}
	return nil
}
func c11TempDir(dir, pattern string) (string, error) {
	if !c11Dirs[dir] {
		return "", c11ErrNotExist
	}
	c11Temp++
	name := dir + "/" + pattern + string(rune('0'+c11Temp))
	c11Dirs[name] = true
	return name, nil
}
func c11Create(name string) (*os.File, error) {
	i := strings.LastIndex(name, "/")
	if i < 0 || !c11Dirs[name[:i]] {
		return nil, c11ErrNotExist
	}
	f := &c11File{name: name}
	c11Files[name] = f
	h := &os.File{}
	c11Handles[h] = &c11Handle{f: f}
	return h, nil
}
func c11Open(name string) (*os.File, error) {
	f := c11Files[name]
	if f == nil {
		return nil, c11ErrNotExist
	}
	h := &os.File{}
	c11Handles[h] = &c11Handle{f: f}
	return h, nil
}
func c11FileWrite(h *os.File, b []byte) (int, error) {
	st := c11Handles[h]
	st.f.data = append(st.f.data, b...)
	return len(b), nil
}
func c11FileRead(h *os.File, b []byte) (int, error) {
	st := c11Handles[h]
	if st.pos >= len(st.f.data) {
		return 0, io.EOF
	}
	n := copy(b, st.f.data[st.pos:])
	st.pos += n
	return n, nil
}
func c11FileClose(h *os.File) error { return nil }
func c11ReadAll(r io.Reader) ([]byte, error) {
	st := c11Handles[r.(*os.File)]
	out := append([]byte{}, st.f.data[st.pos:]...)
	st.pos = len(st.f.data)
	return out, nil
}
func c11RemoveAll(path string) error {
	for n := range c11Files {
		if n == path || strings.HasPrefix(n, path+"/") {
			delete(c11Files, n)
		}
	}
	for n := range c11Dirs {
		if n == path || strings.HasPrefix(n, path+"/") {
			delete(c11Dirs, n)
		}
	}
	return nil
}

// c11Glob: the one pattern shape the storage uses: <base>/*/*/status.
func c11Glob(pattern string) ([]string, error) {
	const tail = "/*/*/status"
	if !strings.HasSuffix(pattern, tail) {
		return nil, errors.New("c11Glob: unsupported pattern")
	}
	base := pattern[:len(pattern)-len(tail)]
	var out []string
	for n := range c11Files {
		if !strings.HasPrefix(n, base+"/") || !strings.HasSuffix(n, "/status") {
			continue
		}
		mid := n[len(base)+1 : len(n)-len("/status")]
		if strings.Count(mid, "/") == 1 {
			out = append(out, n)
		}
	}
	sort.Strings(out)
	return out, nil
}

// c11SanitizeName: kennygrant/sanitize.Name on ASCII names without '/':
// lower-case, separators [ &_=+:] become '-', everything outside
// [a-z0-9.-] is dropped, runs of '-' collapse.
func c11SanitizeName(s string) string {
	s = strings.ToLower(s)
	s = strings.Trim(s, " ")
	var b []byte
	for i := 0; i < len(s); i++ {
		c := s[i]
		switch {
		case c == ' ' || c == '&' || c == '_' || c == '=' || c == '+' || c == ':':
			c = '-'
		case (c >= 'a' && c <= 'z') || (c >= '0' && c <= '9') || c == '-' || c == '.':
		default:
			continue
		}
		if c == '-' && len(b) > 0 && b[len(b)-1] == '-' {
			continue
		}
		b = append(b, c)
	}
	if len(b) == 0 {
		return "."
	}
	return string(b)
}

// c11Hash: an injective stand-in for hashstructure.Hash on the statements the harness uses.
func c11Hash(v interface{}, format hashstructure.Format, opts *hashstructure.HashOptions) (uint64, error) {
	gs, ok := v.(*gripql.GraphStatement)
	if !ok {
		return 0, errors.New("c11Hash: unexpected value")
	}
	switch s := gs.Statement.(type) {
	case *gripql.GraphStatement_V:
		return 1, nil
	case *gripql.GraphStatement_Out:
		return 2, nil
	case *gripql.GraphStatement_HasLabel:
		h := uint64(3)
		for _, x := range s.HasLabel.GetValues() {
			for _, c := range []byte(x.GetStringValue()) {
				h = h*257 + uint64(c) + 1
			}
		}
		return h, nil
	case *gripql.GraphStatement_Count:
		return 4, nil
	}
	return 99, nil
}

// ---- the harness ----

func c11Stmts(k int) []*gripql.GraphStatement {
	v := &gripql.GraphStatement{Statement: &gripql.GraphStatement_V{}}
	out := &gripql.GraphStatement{Statement: &gripql.GraphStatement_Out{}}
	hl := func(l string) *gripql.GraphStatement {
		return &gripql.GraphStatement{Statement: &gripql.GraphStatement_HasLabel{HasLabel: &structpb.ListValue{Values: []*structpb.Value{structpb.NewStringValue(l)}}}}
	}
	return [][]*gripql.GraphStatement{
		{v},
		{v, out},
		{v, hl("A")},
		{v, out, hl("A")},
		{v, out, hl("B")},
	}[k]
}

func c11IsPrefix(job, q int) bool {
	// by construction of c11Stmts: statement lists compared by kind and label
	a, b := c11Stmts(job), c11Stmts(q)
	if len(a) > len(b) {
		return false
	}
	for i := range a {
		ha, _ := c11Hash(a[i], 0, nil)
		hb, _ := c11Hash(b[i], 0, nil)
		if ha != hb {
			return false
		}
	}
	return true
}

func c11Contains(l []string, s string) bool {
	for _, x := range l {
		if x == s {
			return true
		}
	}
	return false
}

func c11List(fs *FSResults, graph string) []string {
	var out []string
	ch, _ := fs.List(graph)
	for id := range ch {
		out = append(out, id)
	}
	return out
}

// c11ReadBack: the stored rows (their markers) or nil if the job cannot be read.
func c11ReadBack(fs *FSResults, graph, id string) ([]uint32, bool) {
	s, err := fs.Stream(context.Background(), graph, id)
	if err != nil {
		return nil, false
	}
	out := []uint32{}
	for t := range s.Pipe {
		out = append(out, t.GetCount())
	}
	return out, true
}

func c11Wait(fs *FSResults, graph, id string) bool {
	limit := 200
	if !vSymbolic() {
		limit = 15000 // natively a yield is a 1 ms sleep and a padded row takes seconds to spool
	}
	for i := 0; i < limit; i++ {
		st, err := fs.Status(graph, id)
		if err == nil && st.State == gripql.JobState_COMPLETE {
			return true
		}
		vYield()
	}
	return false
}

// VerifH_C11_restart: completed jobs remain listed, readable and findable after a
// restart, under whatever graph name they were submitted; a deleted job is gone
// and stays gone.
// c11Base: the spool directory: a fixed name in the in-memory file system, a fresh
// temporary directory natively (left to the operating system's temp cleaning).
func c11Base() string {
	if vSymbolic() {
		return "/base"
	}
	d, err := os.MkdirTemp("", "verif-c11-")
	if err != nil {
		panic(err)
	}
	return d
}

func VerifH_C11_restart() {
	base := c11Base()
	if !vSymbolic() {
		defer os.RemoveAll(base)
	}
	// valid graph names (gripql.ValidateGraphName); some differ only in what sanitize.Name erases
	names := []string{"g", "Test_Graph", "G1", "g1", "g_1", "g-1"}[:vParam("NAMES", 4)]
	graph := names[vChoice("graph", len(names))]
	other := names[vChoice("other", len(names))]
	vAssume(other != graph)
	n := vChoice("rows", vParam("ROWS", 3))
	jq := vChoice("jobquery", 5)

	fs := NewFSJobStorage(base)
	in := make(chan gdbi.Traveler, n+1)
	marks := make([]uint32, n)
	for i := 0; i < n; i++ {
		marks[i] = vNondetUint32("c" + string(rune('0'+i)))
		tr := &gdbi.BaseTraveler{Count: marks[i]}
		if pad := vParam("NATIVE_PAD_KB", 0); pad > 0 {
			// natively the scanner buffer has its real size (32 MiB): rows are padded so
			// that the results file is larger than that
			b := make([]byte, pad*1024)
			for j := range b {
				b[j] = 'x'
			}
			tr.Current = &gdbi.DataElement{ID: "pad", Label: "P", Data: map[string]interface{}{"pad": string(b)}}
		}
		in <- tr
	}
	close(in)
	id, err := fs.Spool(graph, &Stream{Pipe: in, DataType: gdbi.CountData, Query: c11Stmts(jq)})
	vAssert("C11.fs.spool-accepted", err == nil && id != "")
	if err != nil {
		return
	}
	vAssert("C11.fs.job-completes", c11Wait(fs, graph, id))
	// a job on another graph, to tell the graphs apart
	in2 := make(chan gdbi.Traveler, 1)
	in2 <- &gdbi.BaseTraveler{Count: 7}
	close(in2)
	id2, err := fs.Spool(other, &Stream{Pipe: in2, DataType: gdbi.CountData, Query: c11Stmts(1)})
	if err != nil || !c11Wait(fs, other, id2) {
		return
	}

	check := func(tag string, fs *FSResults) {
		l := c11List(fs, graph)
		vAssert("C11.fs.listed"+tag, c11Contains(l, id) && !c11Contains(l, id2) && len(l) == 1)
		st, err := fs.Status(graph, id)
		vAssert("C11.fs.status"+tag, err == nil && st != nil && st.Id == id && st.Graph == graph && st.State == gripql.JobState_COMPLETE && st.Count == uint64(n))
		rows, ok := c11ReadBack(fs, graph, id)
		same := ok && len(rows) == n
		for i := 0; same && i < n; i++ {
			same = rows[i] == marks[i]
		}
		vAssert("C11.fs.rows-read-back"+tag, same)
		_, errOther := fs.Status(other, id)
		vAssert("C11.fs.not-under-other-graph"+tag, errOther != nil || id == id2)
		// search: found iff it has two or more steps and is a prefix of the searched traversal
		q := vChoice("search"+tag, 5)
		ch, _ := fs.Search(graph, c11Stmts(q))
		found := false
		for js := range ch {
			if js.Id == id {
				found = true
			}
			vAssert("C11.fs.search-only-this-graph"+tag, js.Graph == graph)
		}
		vAssert("C11.fs.search"+tag, found == (len(c11Stmts(jq)) >= 2 && c11IsPrefix(jq, q)))
	}
	check("", fs)
	// restart
	fs = NewFSJobStorage(base)
	vReach("c11.fs.restarted")
	check(".after-restart", fs)
	// delete, observe, restart, observe
	vAssert("C11.fs.delete", fs.Delete(graph, id) == nil)
	gone := func(tag string, fs *FSResults) {
		_, err := fs.Status(graph, id)
		_, readable := c11ReadBack(fs, graph, id)
		vAssert("C11.fs.deleted-gone"+tag, err != nil && !readable && !c11Contains(c11List(fs, graph), id))
		vAssert("C11.fs.other-job-kept"+tag, c11Contains(c11List(fs, other), id2))
	}
	gone("", fs)
	fs = NewFSJobStorage(base)
	gone(".after-restart", fs)
}
