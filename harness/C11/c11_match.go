package PKG

func init() {
	vHarnesses["VerifH_C11_match"] = VerifH_C11_match
}

// VerifH_C11_match: a stored job matches a searched traversal iff it has at least
// two steps and its per-step checksums are a prefix of the traversal's.
func VerifH_C11_match() {
	N := vParam("N", 4)
	nq := vChoice("nq", N+1)
	nj := vChoice("nj", N+1)
	q := make([]string, nq)
	j := make([]string, nj)
	for i := range q {
		q[i] = vNondetString("q"+string(rune('0'+i)), 1)
	}
	for i := range j {
		j[i] = vNondetString("j"+string(rune('0'+i)), 1)
	}
	prefix := nj <= nq
	if prefix {
		for i := 0; i < nj; i++ {
			if q[i] != j[i] {
				prefix = false
			}
		}
	}
	vAssert("C11.jobmatch.prefix-law", JobMatch(q, j) == (nj >= 2 && prefix))
}
