package PKG

import (
	"reflect"

	"github.com/bmeg/grip/engine/pipeline"
	"github.com/bmeg/grip/gdbi"
	"github.com/bmeg/grip/gripql"
)

func init() {
	vHarnesses["VerifH_C02_plan"] = VerifH_C02_plan
}

// c02Graph: vertices a and b (symbolic labels; a carries x = any finite number
// and y = [1,2], b has no properties), one or two edges with symbolic endpoints in
// {a,b,c} (c absent), symbolic label, property x on the first edge.
func c02Graph(nE int) *vGraph {
	g := &vGraph{honourLoad: true}
	g.vs = []*gdbi.Vertex{
		{ID: "a", Label: vSymID("g.a.label", 'A', 'B'), Data: map[string]interface{}{"x": vFinite("g.a.x"), "y": []interface{}{1.0, 2.0}}, Loaded: true},
		{ID: "b", Label: vSymID("g.b.label", 'A', 'B'), Data: map[string]interface{}{}, Loaded: true},
	}
	for i := 0; i < nE; i++ {
		n := "g.e" + string(rune('0'+i))
		data := map[string]interface{}{}
		if i == 0 {
			data["x"] = vFinite(n + ".x")
		}
		g.es = append(g.es, &gdbi.Edge{ID: "e" + string(rune('0'+i)), From: vSymID(n+".from", 'a', 'c'), To: vSymID(n+".to", 'a', 'c'), Label: vSymID(n+".label", 'A', 'B'), Data: data, Loaded: true})
	}
	return g
}

func (g *vGraph) clone(honour bool) *vGraph {
	return &vGraph{vs: g.vs, es: g.es, honourLoad: honour, compiler: g.compiler}
}

// c02Stmt: the traversal alphabet. Identifier arguments are symbolic.
func c02Stmt(name string, wide bool) (*gripql.GraphStatement, string) {
	n := 19
	if wide {
		n = 25
	}
	switch vChoice(name+".k", n) {
	case 0:
		return sHasLabel(vSymID(name+".l", 'A', 'B')), "hasLabel"
	case 1:
		return sHasID(vSymID(name+".i", 'a', 'c')), "hasId"
	case 2:
		return sHas(vCond("_label", gripql.Condition_EQ, vSymID(name+".l", 'A', 'B'))), "has(eq(_label))"
	case 3:
		return sHas(vCond("_gid", gripql.Condition_WITHIN, []interface{}{vSymID(name+".i", 'a', 'c'), "b"})), "has(within(_gid))"
	case 4:
		// the property under either of its spellings (x, _data.x)
		key := "x"
		if vChoice(name+".spelling", 2) == 1 {
			key = "_data.x"
		}
		return sHas(vCond(key, gripql.Condition_GT, vFinite(name+".n"))), "has(gt(x))"
	case 5:
		return sOut(), "out"
	case 6:
		return sIn(), "in"
	case 7:
		return sOutE(), "outE"
	case 8:
		return sInE(), "inE"
	case 9:
		return sAs("m"), "as"
	case 10:
		return sSelect("m"), "select"
	case 11:
		return sHasKey("x"), "hasKey"
	case 12:
		return sCount(), "count"
	case 13:
		return sLimit(1), "limit"
	case 14:
		return sFields("x"), "fields"
	case 15:
		return sUnwind("y"), "unwind"
	case 16:
		return sBoth(), "both"
	case 17:
		return sBothE(), "bothE"
	case 18:
		// a filter whose conditions all sit under a negation
		return sHas(&gripql.HasExpression{Expression: &gripql.HasExpression_Not{Not: vCond("x", gripql.Condition_GT, vFinite(name+".n"))}}), "has(not(gt(x)))"
	case 19:
		return sHas(&gripql.HasExpression{Expression: &gripql.HasExpression_And{And: &gripql.HasExpressionList{Expressions: []*gripql.HasExpression{
			vCond("_label", gripql.Condition_EQ, vSymID(name+".l", 'A', 'B')), vCond("_gid", gripql.Condition_NEQ, "b")}}}}), "has(and(_label,_gid))"
	case 20:
		return sHas(vCond("$m.x", gripql.Condition_GT, vFinite(name+".n"))), "has(gt($m.x))"
	case 21:
		return sRender(map[string]interface{}{"i": "_gid", "v": "x"}), "render"
	case 22:
		return sDistinct("x"), "distinct"
	case 23:
		return sOut(vSymID(name+".l", 'A', 'B')), "out(label)"
	default:
		return sHas(vCond("_label", gripql.Condition_WITHIN, []interface{}{vSymID(name+".l", 'A', 'B')})), "has(within(_label))"
	}
}

func c02RowsEq(a, b []*gripql.QueryResult) bool {
	if len(a) != len(b) {
		return false
	}
	for _, x := range a {
		na, nb := 0, 0
		for _, y := range a {
			if reflect.DeepEqual(x, y) {
				na++
			}
		}
		for _, y := range b {
			if reflect.DeepEqual(x, y) {
				nb++
			}
		}
		if na != nb {
			return false
		}
	}
	return true
}

// c02Literal compiles the statements one by one, without the optimizer and
// with every step told to load its element.
func c02Literal(g *vGraph, stmts []*gripql.GraphStatement) (gdbi.Pipeline, error) {
	ps := pipeline.NewPipelineState(stmts)
	for _, s := range ps.Steps {
		ps.StepOutputs[s] = []string{"*"}
	}
	procs := []gdbi.Processor{}
	for i, gs := range stmts {
		ps.SetCurStatment(i)
		p, err := StatementProcessor(gs, g, ps)
		if err != nil {
			return nil, err
		}
		procs = append(procs, p)
	}
	return &DefaultPipeline{g, procs, ps.LastType, ps.MarkTypes}, nil
}

// VerifH_C02_plan: production plan (index rewrite + load elision) vs. literal,
// all-loaded execution of the same statements, on backends that honour or ignore
// the load hint.
func VerifH_C02_plan() {
	N := vParam("N", 2)
	wide := vParam("WIDE", 0) == 1
	g := c02Graph(vParam("NE", 1))
	var stmts []*gripql.GraphStatement
	switch vChoice("start", 3) {
	case 0:
		stmts = append(stmts, sV())
	case 1:
		stmts = append(stmts, sV(vSymID("start.i", 'a', 'c')))
	default:
		stmts = append(stmts, sE())
	}
	n := 1 + vChoice("len", N)
	readsData := false
	lastCount := false
	for i := 0; i < n; i++ {
		s, kind := c02Stmt("q"+string(rune('0'+i)), wide)
		stmts = append(stmts, s)
		switch kind {
		case "hasKey", "fields", "unwind", "render", "has(gt($m.x))", "select", "distinct":
			readsData = true
		}
		lastCount = kind == "count"
	}
	// optionally one more step that makes the previous element step a non-final one
	if vParam("TAIL", 0) == 1 {
		switch vChoice("tail", 3) {
		case 1:
			stmts = append(stmts, sCount())
			lastCount = true
		case 2:
			stmts = append(stmts, sOut())
			lastCount = false
		}
	}
	lit, errL := c02Literal(g.clone(true), stmts)
	honour := vChoice("backend", 2) == 0
	gp := g.clone(honour)
	prod, errP := NewCompiler(gp, IndexStartOptimize).Compile(stmts, nil)
	vAssert("C02.accept-agree", (errL == nil) == (errP == nil))
	if errL != nil || errP != nil {
		return
	}
	// steps whose needs the load analysis does not record (hasKey, fields, unwind,
	// render, $mark references, select in the middle, distinct on unloaded elements)
	vKnownFor("C02/load-elision-misses-readers", honour && readsData, "C02.rows-equal,C02.count-equals-rows")
	want := vRunPipe(lit.Graph(), lit, 2)
	got := vRunPipe(gp, prod, 2)
	vReach("c02.ran")
	vAssert("C02.rows-equal", c02RowsEq(got, want))
	if lastCount {
		body, err := c02Literal(g.clone(true), stmts[:len(stmts)-1])
		if err == nil {
			rows := vRunPipe(body.Graph(), body, 2)
			vAssert("C02.count-equals-rows", len(got) == 1 && got[0].GetCount() == uint32(len(rows)))
		}
	}
}
