package PKG

import (
	"context"
	"errors"
	"io"

	"github.com/bmeg/grip/config"
	"github.com/bmeg/grip/gdbi"
	"github.com/bmeg/grip/gripql"
	"google.golang.org/grpc"
)

func init() {
	vHarnesses["VerifH_C18_bulkadd"] = VerifH_C18_bulkadd
	vHarnesses["VerifH_C06_edit"] = VerifH_C06_edit
	vHarnesses["VerifH_C17_bulkstream"] = VerifH_C17_bulkstream
}

// ---- stub graph database: records what each graph receives ----

type c18Graph struct {
	gdbi.GraphInterface
	name string
	db   *c18DB
}

func (g *c18Graph) BulkAdd(stream <-chan *gdbi.GraphElement) error {
	if g.db.failBulk == g.name {
		for range stream {
		}
		return errors.New("bulk load refused")
	}
	for e := range stream {
		if e.Vertex != nil {
			g.db.got = append(g.db.got, g.name+":v:"+e.Vertex.ID)
		}
		if e.Edge != nil {
			g.db.got = append(g.db.got, g.name+":e:"+e.Edge.ID)
		}
	}
	return nil
}

func (g *c18Graph) AddVertex(vs []*gdbi.Vertex) error {
	for _, v := range vs {
		g.db.got = append(g.db.got, g.name+":v:"+v.ID)
	}
	return nil
}

func (g *c18Graph) AddEdge(es []*gdbi.Edge) error {
	for _, e := range es {
		g.db.got = append(g.db.got, g.name+":e:"+e.ID)
	}
	return nil
}

func (g *c18Graph) DelVertex(id string) error { return nil }
func (g *c18Graph) DelEdge(id string) error   { return nil }

type c18DB struct {
	graphs   []string
	got      []string
	failBulk string // the graph whose BulkAdd drains its stream and fails
}

func (d *c18DB) AddGraph(string) error    { return nil }
func (d *c18DB) DeleteGraph(string) error { return nil }
func (d *c18DB) ListGraphs() []string     { return d.graphs }
func (d *c18DB) Graph(id string) (gdbi.GraphInterface, error) {
	for _, g := range d.graphs {
		if g == id {
			return &c18Graph{name: id, db: d}, nil
		}
	}
	return nil, errors.New("graph not found")
}
func (d *c18DB) BuildSchema(ctx context.Context, graphID string, sampleN uint32, random bool) (*gripql.Graph, error) {
	return nil, nil
}
func (d *c18DB) Close() error { return nil }

type c18Stream struct {
	grpc.ServerStream
	elems  []*gripql.GraphElement
	pos    int
	result *gripql.BulkEditResult
}

func (s *c18Stream) Recv() (*gripql.GraphElement, error) {
	if s.pos >= len(s.elems) {
		return nil, io.EOF
	}
	e := s.elems[s.pos]
	s.pos++
	return e, nil
}

func (s *c18Stream) SendAndClose(r *gripql.BulkEditResult) error {
	s.result = r
	return nil
}

func c18Server(db *c18DB) *GripServer {
	return &GripServer{
		dbs:      map[string]gdbi.GraphDB{"stub": db},
		graphMap: map[string]string{},
		conf:     &config.Config{Default: "stub"},
		schemas:  map[string]*gripql.Graph{},
	}
}

// VerifH_C18_bulkadd: a bulk stream stores, per graph and in order, exactly its
// valid elements addressed to existing graphs; counts are reported faithfully;
// the call always returns.
func VerifH_C18_bulkadd() {
	N := vParam("N", 3)
	n := vChoice("n", N+1)
	db := &c18DB{graphs: []string{"g", "h"}}
	srv := c18Server(db)
	var elems []*gripql.GraphElement
	var want []string
	valid, invalid := 0, 0
	for i := 0; i < n; i++ {
		name := "e" + string(rune('0'+i))
		id := "x" + string(rune('0'+i))
		graph := []string{"g", "h", "missing", "g__schema__"}[vChoice(name+".graph", 4)]
		stored := graph == "g" || graph == "h"
		switch vChoice(name+".kind", 5) {
		case 0:
			elems = append(elems, &gripql.GraphElement{Graph: graph, Vertex: &gripql.Vertex{Gid: id, Label: "L"}})
			if stored {
				want = append(want, graph+":v:"+id)
				valid++
			}
		case 1:
			elems = append(elems, &gripql.GraphElement{Graph: graph, Vertex: &gripql.Vertex{Gid: id, Label: ""}})
			if stored {
				invalid++
			}
		case 2:
			elems = append(elems, &gripql.GraphElement{Graph: graph, Edge: &gripql.Edge{Gid: id, From: "a", To: "b", Label: "L"}})
			if stored {
				want = append(want, graph+":e:"+id)
				valid++
			}
		case 3:
			elems = append(elems, &gripql.GraphElement{Graph: graph, Edge: &gripql.Edge{Gid: id, From: "", To: "b", Label: "L"}})
			if stored {
				invalid++
			}
		default:
			elems = append(elems, &gripql.GraphElement{Graph: graph})
		}
	}
	st := &c18Stream{elems: elems}
	err := srv.BulkAdd(st)
	vReach("c18.bulkadd.returned")
	vAssert("C18.bulkadd.returns-result", err == nil && st.result != nil)
	// per graph, the stored sequence is the valid elements in stream order
	for _, g := range []string{"g", "h"} {
		var a, b []string
		for _, x := range db.got {
			if x[:1] == g {
				a = append(a, x)
			}
		}
		for _, x := range want {
			if x[:1] == g {
				b = append(b, x)
			}
		}
		ok := len(a) == len(b)
		for i := range a {
			if i < len(b) && a[i] != b[i] {
				ok = false
			}
		}
		vAssert("C18.bulkadd.stored-equals-valid-in-order", ok)
	}
	if st.result != nil {
		vAssert("C18.bulkadd.insert-count", st.result.InsertCount == int32(valid))
		vAssert("C18.bulkadd.error-count-covers-invalid", st.result.ErrorCount >= int32(invalid))
	}
}

// VerifH_C06_edit: the unary edit handlers answer with a result or an error for
// any element the wire can carry (no vertex, no edge, blank fields, unknown graph).
func VerifH_C06_edit() {
	db := &c18DB{graphs: []string{"g"}}
	srv := c18Server(db)
	graph := []string{"g", "missing", "g__schema__", ""}[vChoice("graph", 4)]
	elem := &gripql.GraphElement{Graph: graph}
	switch vChoice("payload", 4) {
	case 0:
	case 1:
		elem.Vertex = &gripql.Vertex{Gid: vNondetString("gid", 1), Label: vNondetString("label", 1)}
	case 2:
		elem.Edge = &gripql.Edge{Gid: vNondetString("gid", 1), Label: vNondetString("label", 1), From: vNondetString("from", 1), To: "b"}
	default:
		elem.Vertex = &gripql.Vertex{}
		elem.Edge = &gripql.Edge{}
	}
	ctx := context.Background()
	switch vChoice("handler", 4) {
	case 0:
		srv.AddVertex(ctx, elem)
	case 1:
		srv.AddEdge(ctx, elem)
	case 2:
		srv.DeleteVertex(ctx, &gripql.ElementID{Graph: graph, Id: vNondetString("id", 1)})
	default:
		srv.DeleteEdge(ctx, &gripql.ElementID{Graph: graph, Id: vNondetString("id", 1)})
	}
	vReach("c06.edit.returned")
	vAssert("C06.edit.returns", true)
}


// VerifH_C17_bulkstream (C17): one BulkAdd stream of 1..N valid vertices, each
// addressed to graph g or h, so the handler opens and closes per-graph loader
// goroutines while it keeps receiving; the back end of one graph may refuse its
// load. All schedules within the deviation budget of the loader goroutines against
// the receive loop, with happens-before race analysis of the handler's own
// variables: every acknowledged element reaches the graph it names, in order, the
// counts are right, the call returns.
func VerifH_C17_bulkstream() {
	N := vParam("N", 3)
	n := 1 + vChoice("n", N)
	db := &c18DB{graphs: []string{"g", "h"}}
	switch vChoice("failing-backend", 3) {
	case 1:
		db.failBulk = "g"
	case 2:
		db.failBulk = "h"
	}
	srv := c18Server(db)
	var elems []*gripql.GraphElement
	var want []string
	for i := 0; i < n; i++ {
		name := "e" + string(rune('0'+i))
		id := "x" + string(rune('0'+i))
		graph := []string{"g", "h"}[vChoice(name+".graph", 2)]
		if vChoice(name+".valid", 2) == 0 {
			elems = append(elems, &gripql.GraphElement{Graph: graph, Vertex: &gripql.Vertex{Gid: id, Label: "L"}})
			if graph != db.failBulk {
				want = append(want, graph+":v:"+id)
			}
		} else {
			elems = append(elems, &gripql.GraphElement{Graph: graph, Vertex: &gripql.Vertex{Gid: id, Label: ""}})
		}
	}
	st := &c18Stream{elems: elems}
	err := srv.BulkAdd(st)
	vReach("c17.bulkstream.returned")
	vAssert("C17.bulkstream.returns-result", err == nil && st.result != nil)
	for _, g := range []string{"g", "h"} {
		var a, b []string
		for _, x := range db.got {
			if x[:1] == g {
				a = append(a, x)
			}
		}
		for _, x := range want {
			if x[:1] == g {
				b = append(b, x)
			}
		}
		ok := len(a) == len(b)
		for i := range a {
			if i < len(b) && a[i] != b[i] {
				ok = false
			}
		}
		vAssert("C17.bulkstream.elements-reach-their-graph", ok)
	}
	vAssert("C17.bulkstream.no-goroutine-left", vBlockedGoroutines() == 0)
}
