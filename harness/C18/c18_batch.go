package PKG

import (
	"errors"

	"github.com/bmeg/grip/gdbi"
)

func init() {
	vHarnesses["VerifH_C18_streambatch"] = VerifH_C18_streambatch
}

// VerifH_C18_streambatch: StreamBatch hands every valid element of the stream to
// the add callbacks exactly once, in order, in batches of at most batchSize;
// invalid elements and elements of another graph are skipped and reported.
func VerifH_C18_streambatch() {
	N := vParam("N", 3)
	B := 1 + vChoice("batch", vParam("B", 2))
	n := vChoice("n", N+1)
	in := make(chan *gdbi.GraphElement, n+1)
	var wantV, wantE []string
	bad := 0
	for i := 0; i < n; i++ {
		name := "e" + string(rune('0'+i))
		id := "x" + string(rune('0'+i))
		graph := "g"
		switch vChoice(name+".kind", 6) {
		case 0:
			in <- &gdbi.GraphElement{Graph: graph, Vertex: &gdbi.Vertex{ID: id, Label: "L", Data: map[string]interface{}{}}}
			wantV = append(wantV, id)
		case 1:
			in <- &gdbi.GraphElement{Graph: graph, Vertex: &gdbi.Vertex{ID: id, Label: "", Data: map[string]interface{}{}}}
			bad++
		case 2:
			in <- &gdbi.GraphElement{Graph: graph, Edge: &gdbi.Edge{ID: id, From: "a", To: "b", Label: "L", Data: map[string]interface{}{}}}
			wantE = append(wantE, id)
		case 3:
			in <- &gdbi.GraphElement{Graph: graph, Edge: &gdbi.Edge{ID: id, From: "a", To: "b", Label: "", Data: map[string]interface{}{}}}
			bad++
		case 4:
			in <- &gdbi.GraphElement{Graph: "other", Vertex: &gdbi.Vertex{ID: id, Label: "L"}}
			bad++
		default:
			in <- &gdbi.GraphElement{Graph: graph} // neither vertex nor edge
		}
	}
	close(in)
	var gotV, gotE []string
	failV := vNondetBool("vertexAdd.fails")
	vertexAdd := func(vs []*gdbi.Vertex) error {
		vAssert("C18.batch.vertex-batch-size", len(vs) >= 1 && len(vs) <= B)
		for _, v := range vs {
			gotV = append(gotV, v.ID)
		}
		if failV {
			return errors.New("vertexAdd failed")
		}
		return nil
	}
	edgeAdd := func(es []*gdbi.Edge) error {
		vAssert("C18.batch.edge-batch-size", len(es) >= 1 && len(es) <= B)
		for _, e := range es {
			gotE = append(gotE, e.ID)
		}
		return nil
	}
	err := StreamBatch(in, B, "g", vertexAdd, edgeAdd)
	vAssert("C18.batch.vertices-in-order", len(gotV) == len(wantV))
	for i := range wantV {
		if i < len(gotV) {
			vAssert("C18.batch.vertices-in-order", gotV[i] == wantV[i])
		}
	}
	vAssert("C18.batch.edges-in-order", len(gotE) == len(wantE))
	for i := range wantE {
		if i < len(gotE) {
			vAssert("C18.batch.edges-in-order", gotE[i] == wantE[i])
		}
	}
	vAssert("C18.batch.error-iff-something-skipped", (err != nil) == (bad > 0 || (failV && len(wantV) > 0)))
	vAssert("C18.batch.no-goroutine-left", vBlockedGoroutines() == 0)
}
