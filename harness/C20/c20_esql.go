package PKG

import (
	"context"

	"github.com/bmeg/grip/gdbi"
	"github.com/bmeg/grip/timestamp"
)

func init() {
	vHarnesses["VerifH_C20_esql"] = VerifH_C20_esql
}

func c20eReq(ids ...string) chan gdbi.ElementLookup {
	c := make(chan gdbi.ElementLookup, len(ids)+1)
	for _, id := range ids {
		c <- gdbi.ElementLookup{ID: id}
	}
	close(c)
	return c
}

func c20eDrain(c chan gdbi.ElementLookup) {
	for range c {
	}
}

// the mapping: two vertex tables, one table-backed edge and one generated edge
func c20eSchema() *Schema {
	return &Schema{Graph: "g",
		Vertices: []*Vertex{{Table: "users", GidField: "id", Label: "User"}, {Table: "posts", GidField: "pid", Label: "Post"}},
		Edges: []*Edge{
			{Table: "likes", GidField: "lid", Label: "likes", From: &ForeignKey{SourceField: "uid", DestTable: "users", DestField: "id"}, To: &ForeignKey{SourceField: "pid", DestTable: "posts", DestField: "pid"}},
			{Table: "", Label: "wrote", From: &ForeignKey{DestTable: "users", DestField: "id"}, To: &ForeignKey{DestTable: "posts", DestField: "author"}},
		}}
}

// c20eCall runs one entry point of the existing-SQL driver with the client string s
// in the position `where` of the element key <table>:<id>.
func c20eCall(entry, where int, s string) []string {
	c20Log = nil
	ts := timestamp.NewTimestamp()
	g := &Graph{db: c20DB(), ts: &ts, graph: "g", schema: c20eSchema()}
	ctx := context.Background()
	vkey, ekey := "users:"+s, "likes:"+s
	if where == 1 {
		vkey, ekey = s+":1", s+":1"
	}
	switch entry {
	case 0:
		g.GetVertex(vkey, true)
	case 1:
		g.GetEdge(ekey, true)
	case 2:
		c20eDrain(g.GetVertexChannel(ctx, c20eReq(vkey), true))
	case 3:
		c20eDrain(g.GetOutChannel(ctx, c20eReq(vkey), true, false, nil))
	case 4:
		c20eDrain(g.GetInChannel(ctx, c20eReq("posts:"+s), true, false, nil))
	case 5:
		c20eDrain(g.GetOutEdgeChannel(ctx, c20eReq(vkey), true, false, nil))
	case 6:
		c20eDrain(g.GetInEdgeChannel(ctx, c20eReq("posts:"+s), true, false, nil))
	case 7:
		c20eDrain(g.GetOutChannel(ctx, c20eReq("users:1"), true, false, []string{s}))
	case 8:
		for range g.VertexLabelScan(ctx, s) {
		}
	}
	return c20Log
}

var c20eEntries = []string{"GetVertex", "GetEdge", "GetVertexChannel", "GetOutChannel", "GetInChannel", "GetOutEdgeChannel", "GetInEdgeChannel", "GetOutChannel(label)", "VertexLabelScan"}

// VerifH_C20_esql: whatever bytes the client string holds, the statement text has
// the structure it has for a benign string of the same length.
func VerifH_C20_esql() {
	L := vParam("L", 2)
	entry := vChoice("entry", len(c20eEntries))
	where := vChoice("where", 2) // 0: the id part of the key, 1: the table part
	s := vNondetString("s", L)
	vAssume(len(s) > 0)
	for i := 0; i < len(s); i++ {
		vAssume(s[i] != ':') // the key separator splits the key before any SQL is built
	}
	got := c20eCall(entry, where, s)
	ref := c20eCall(entry, where, c20Benign(len(s)))
	// labels select schema entries by comparison and never reach a statement
	vKnownFor("C20/esql-interpolates-client-strings", entry < 7, "C20.esql.same-structure")
	vReach("c20.esql.called")
	vAssert("C20.esql.same-structure", c20SameShape(got, ref))
}
