package PKG

// Recording database sink and SQL lexer shared by the psql and existing-sql harnesses.
// Symbolically the database/sql and sqlx calls are redirected to the c20* functions
// below; natively (replay) a recording database/sql driver receives the statements.

import (
	"context"
	"database/sql"
	"database/sql/driver"
	"errors"
	"io"
	"sync"

	"github.com/jmoiron/sqlx"
)

var c20Log []string
var c20Err = errors.New("recording sink: statement not executed")

// fault schedule of the prepared statements: the c20ExecFailAt-th Exec of a call
// is refused by the database (0 = none is)
var c20ExecFailAt, c20ExecCount int

func c20ExecFails() bool {
	c20ExecCount++
	return c20ExecCount == c20ExecFailAt
}

func c20Exec(db *sql.DB, query string, args ...interface{}) (sql.Result, error) {
	c20Log = append(c20Log, query)
	return nil, c20Err
}
func c20QueryRowx(db *sqlx.DB, query string, args ...interface{}) *sqlx.Row {
	c20Log = append(c20Log, query)
	return nil
}
func c20StructScan(r *sqlx.Row, dest interface{}) error         { return c20Err }
func c20RowColumnTypes(r *sqlx.Row) ([]*sql.ColumnType, error)  { return nil, c20Err }
func c20MapScan(r *sqlx.Row, dest map[string]interface{}) error { return c20Err }
func c20Queryx(db *sqlx.DB, query string, args ...interface{}) (*sqlx.Rows, error) {
	c20Log = append(c20Log, query)
	return nil, c20Err
}
func c20QueryxContext(db *sqlx.DB, ctx context.Context, query string, args ...interface{}) (*sqlx.Rows, error) {
	c20Log = append(c20Log, query)
	return nil, c20Err
}

// transactions and prepared statements succeed: the statement text is recorded,
// bound arguments are data and never part of the text
func c20Begin(db *sql.DB) (*sql.Tx, error) { return &sql.Tx{}, nil }
func c20TxPrepare(tx *sql.Tx, query string) (*sql.Stmt, error) {
	c20Log = append(c20Log, query)
	return &sql.Stmt{}, nil
}
func c20StmtExec(st *sql.Stmt, args ...interface{}) (sql.Result, error) {
	if c20ExecFails() {
		return nil, c20Err
	}
	return driver.RowsAffected(1), nil
}
func c20StmtClose(st *sql.Stmt) error { return nil }
func c20TxCommit(tx *sql.Tx) error    { return nil }
func c20TxRollback(tx *sql.Tx) error  { return nil }

// ---- native recording driver ----

type c20Driver struct{}
type c20Conn struct{}

func (c20Driver) Open(name string) (driver.Conn, error) { return c20Conn{}, nil }
func (c20Conn) Prepare(q string) (driver.Stmt, error) {
	c20Log = append(c20Log, q)
	return c20Stmt{}, nil
}
func (c20Conn) Close() error              { return nil }
func (c20Conn) Begin() (driver.Tx, error) { return c20Tx{}, nil }

type c20Tx struct{}

func (c20Tx) Commit() error   { return nil }
func (c20Tx) Rollback() error { return nil }

type c20Stmt struct{}

func (c20Stmt) Close() error  { return nil }
func (c20Stmt) NumInput() int { return -1 }
func (c20Stmt) Exec(args []driver.Value) (driver.Result, error) {
	if c20ExecFails() {
		return nil, c20Err
	}
	return driver.RowsAffected(1), nil
}
func (c20Stmt) Query(args []driver.Value) (driver.Rows, error) { return nil, c20Err }
func (c20Conn) ExecContext(ctx context.Context, q string, args []driver.NamedValue) (driver.Result, error) {
	c20Log = append(c20Log, q)
	return nil, c20Err
}
func (c20Conn) QueryContext(ctx context.Context, q string, args []driver.NamedValue) (driver.Rows, error) {
	c20Log = append(c20Log, q)
	return nil, c20Err
}

var c20Once sync.Once
var _ = io.EOF

// c20DB: an empty handle under symbolic execution (every call on it is redirected), a real
// sqlx handle over the recording driver natively.
func c20DB() *sqlx.DB {
	if vSymbolic() {
		return &sqlx.DB{DB: &sql.DB{}}
	}
	c20Once.Do(func() { sql.Register("vrecording", c20Driver{}) })
	db, err := sql.Open("vrecording", "")
	if err != nil {
		panic(err)
	}
	return sqlx.NewDb(db, "postgres")
}

// ---- a small SQL lexer ----

type c20Tok struct {
	kind string // LIT QID COMMENT SEMI WORD NUM PUNCT ERR
	text string // for WORD / NUM / PUNCT
}

func c20IsWord(c byte) bool {
	return c >= 'a' && c <= 'z' || c >= 'A' && c <= 'Z' || c == '_' || c >= 0x80
}
func c20IsDigit(c byte) bool { return c >= '0' && c <= '9' }

func c20Lex(s string) []c20Tok {
	var out []c20Tok
	i := 0
	for i < len(s) {
		c := s[i]
		switch {
		case c == ' ' || c == '\t' || c == '\n' || c == '\r':
			i++
		case c == '\'':
			j := i + 1
			closed := false
			for j < len(s) {
				if s[j] == '\'' {
					if j+1 < len(s) && s[j+1] == '\'' {
						j += 2
						continue
					}
					closed = true
					break
				}
				j++
			}
			if !closed {
				out = append(out, c20Tok{kind: "ERR"})
				return out
			}
			out = append(out, c20Tok{kind: "LIT"})
			i = j + 1
		case c == '"':
			j := i + 1
			for j < len(s) && s[j] != '"' {
				j++
			}
			if j >= len(s) {
				out = append(out, c20Tok{kind: "ERR"})
				return out
			}
			out = append(out, c20Tok{kind: "QID", text: s[i+1 : j]})
			i = j + 1
		case c == '-' && i+1 < len(s) && s[i+1] == '-':
			out = append(out, c20Tok{kind: "COMMENT"})
			for i < len(s) && s[i] != '\n' {
				i++
			}
		case c == '/' && i+1 < len(s) && s[i+1] == '*':
			out = append(out, c20Tok{kind: "COMMENT"})
			return out
		case c == ';':
			out = append(out, c20Tok{kind: "SEMI"})
			i++
		case c20IsWord(c):
			j := i
			for j < len(s) && (c20IsWord(s[j]) || c20IsDigit(s[j]) || s[j] == '$' || s[j] == '.') {
				j++
			}
			out = append(out, c20Tok{kind: "WORD", text: s[i:j]})
			i = j
		case c20IsDigit(c):
			j := i
			for j < len(s) && (c20IsDigit(s[j]) || s[j] == '.') {
				j++
			}
			out = append(out, c20Tok{kind: "NUM", text: s[i:j]})
			i = j
		default:
			out = append(out, c20Tok{kind: "PUNCT", text: s[i : i+1]})
			i++
		}
	}
	return out
}

// c20SameShape: the statements sent for the client string and for the benign
// reference string have the same token structure (same count, kinds and - for
// everything but literals - the same text).
func c20SameShape(got, ref []string) bool {
	if len(got) != len(ref) {
		return false
	}
	for i := range got {
		a, b := c20Lex(got[i]), c20Lex(ref[i])
		if len(a) != len(b) {
			return false
		}
		for k := range a {
			if a[k].kind != b[k].kind {
				return false
			}
			if a[k].kind != "LIT" && a[k].text != b[k].text {
				return false
			}
		}
	}
	return true
}

func c20Benign(n int) string {
	s := ""
	for i := 0; i < n; i++ {
		s += "k"
	}
	return s
}
