package PKG

import (
	"context"

	"github.com/bmeg/grip/gdbi"
	"github.com/bmeg/grip/timestamp"
)

func init() {
	vHarnesses["VerifH_C20_psql"] = VerifH_C20_psql
}

func c20Req(ids ...string) chan gdbi.ElementLookup {
	c := make(chan gdbi.ElementLookup, len(ids)+1)
	for _, id := range ids {
		c <- gdbi.ElementLookup{ID: id}
	}
	close(c)
	return c
}

func c20Drain(c chan gdbi.ElementLookup) {
	for range c {
	}
}

// c20PsqlCall runs one entry point of the PostgreSQL driver with the client string s.
func c20PsqlCall(entry int, s string) []string {
	c20ExecCount = 0
	c20Log = nil
	ts := timestamp.NewTimestamp()
	g := &Graph{db: c20DB(), ts: &ts, v: "g_vertices", e: "g_edges", graph: "g"}
	gdb := &GraphDB{db: c20DB(), ts: &ts}
	ctx := context.Background()
	switch entry {
	case 0:
		g.DelVertex(s)
	case 1:
		g.DelEdge(s)
	case 2:
		g.GetVertex(s, true)
	case 3:
		g.GetVertex(s, false)
	case 4:
		g.GetEdge(s, true)
	case 5:
		for range g.VertexLabelScan(ctx, s) {
		}
	case 6:
		c20Drain(g.GetVertexChannel(ctx, c20Req(s), true))
	case 7:
		c20Drain(g.GetOutChannel(ctx, c20Req(s), true, false, nil))
	case 8:
		c20Drain(g.GetOutChannel(ctx, c20Req("a"), false, false, []string{s}))
	case 9:
		c20Drain(g.GetInChannel(ctx, c20Req(s), false, false, nil))
	case 10:
		c20Drain(g.GetOutEdgeChannel(ctx, c20Req(s), true, false, []string{s}))
	case 11:
		c20Drain(g.GetInEdgeChannel(ctx, c20Req(s), false, false, []string{s}))
	case 12:
		gdb.AddGraph(s)
	case 13:
		gdb.DeleteGraph(s)
	case 14:
		gdb.Graph(s)
	case 15:
		g.AddVertex([]*gdbi.Vertex{{ID: s, Label: s, Data: map[string]interface{}{"k": s}}})
	case 16:
		g.AddVertex([]*gdbi.Vertex{{ID: s, Label: "L", Data: map[string]interface{}{}}, {ID: "b", Label: s, Data: map[string]interface{}{s: 1.0}}})
	case 17:
		g.AddEdge([]*gdbi.Edge{{ID: s, Label: s, From: s, To: s, Data: map[string]interface{}{"k": s}}})
	case 18:
		g.AddEdge([]*gdbi.Edge{{ID: "e", Label: "L", From: s, To: "b"}, {ID: s, Label: "L", From: "a", To: s}})
	}
	return c20Log
}

var c20PsqlEntries = []string{"DelVertex", "DelEdge", "GetVertex(load)", "GetVertex", "GetEdge", "VertexLabelScan", "GetVertexChannel", "GetOutChannel(id)", "GetOutChannel(label)",
	"GetInChannel", "GetOutEdgeChannel", "GetInEdgeChannel", "AddGraph", "DeleteGraph", "Graph",
	"AddVertex(one)", "AddVertex(two)", "AddEdge(one)", "AddEdge(two)"}

// VerifH_C20_psql: whatever bytes the client string holds, the statement text has
// the structure it has for a benign string of the same length.
func VerifH_C20_psql() {
	L := vParam("L", 2)
	entry := vChoice("entry", len(c20PsqlEntries))
	s := vNondetString("s", L)
	vAssume(len(s) > 0)
	// the database refuses the first or the second row of a prepared insert, or none
	c20ExecFailAt = vChoice("stmt-exec-fails-at", 3)
	got := c20PsqlCall(entry, s)
	ref := c20PsqlCall(entry, c20Benign(len(s)))
	vKnownFor("C20/psql-interpolates-client-strings", entry != 12 && entry < 15, "C20.psql.same-structure")
	vReach("c20.psql.called")
	if entry == 12 && len(got) == 0 {
		return // AddGraph refused the name before any statement was built
	}
	vAssert("C20.psql.statement-sent", len(ref) > 0)
	vAssert("C20.psql.same-structure", c20SameShape(got, ref))
}
