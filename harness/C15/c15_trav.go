package PKG

// C15, second half of the statement: a traversal over the gripper graph returns
// what the same traversal returns on the graph its mapping describes. The real
// TabularGraph (its own compiler with TabularOptimizer, its lookup pipelines and
// adjacency channels) runs over the table-service stub; the described graph is
// materialised in the in-memory graph stub that the C01/C02 checks use (and that
// VerifH_C01_driver compares with kvgraph); both run the same compiled statements.

import (
	"reflect"

	"github.com/bmeg/grip/engine/core"
	"github.com/bmeg/grip/gdbi"
	"github.com/bmeg/grip/gripql"
	"google.golang.org/protobuf/types/known/structpb"
)

func init() {
	vHarnesses["VerifH_C15_traversal"] = VerifH_C15_traversal
}

func c15RowsEq(a, b []*gripql.QueryResult) bool {
	if len(a) != len(b) {
		return false
	}
	for _, x := range a {
		na, nb := 0, 0
		for _, y := range a {
			if reflect.DeepEqual(x, y) {
				na++
			}
		}
		for _, y := range b {
			if reflect.DeepEqual(x, y) {
				nb++
			}
		}
		if na != nb {
			return false
		}
	}
	return true
}

func VerifH_C15_traversal() {
	N := vParam("N", 2)
	NL := vParam("NL", 1)
	la := c15ID("va.label", 'A', 'B')
	lb := c15ID("vb.label", 'A', 'B')
	le := c15ID("e1.label", 'A', 'B')
	r1 := c15ID("t1.row", 'a', 'b')
	r2 := c15ID("t2.row", 'a', 'b')
	src := &c15Source{tables: map[string]*c15Table{
		"t1": {rows: []*Row{{Id: r1, Data: c15Data("name", "one")}}},
		"t2": {rows: []*Row{{Id: r2, Data: c15Data("name", "two")}}},
		"lt": {},
	}}
	stub := &vGraph{honourLoad: false}
	stub.vs = append(stub.vs, &gdbi.Vertex{ID: "a:" + r1, Label: la, Data: map[string]interface{}{"name": "one"}, Loaded: true})
	stub.vs = append(stub.vs, &gdbi.Vertex{ID: "b:" + r2, Label: lb, Data: map[string]interface{}{"name": "two"}, Loaded: true})
	nl := 1 + vChoice("linkrows", NL)
	for i := 0; i < nl; i++ {
		nm := "lt" + string(rune('0'+i))
		f := c15ID(nm+".from", 'a', 'c')
		data := c15Data("from", f)
		t := ""
		if vChoice(nm+".to.kind", 2) == 0 {
			t = c15ID(nm+".to", 'a', 'c')
		}
		data.Fields["to"] = structpb.NewStringValue(t)
		src.tables["lt"].rows = append(src.tables["lt"].rows, &Row{Id: "k" + string(rune('0'+i)), Data: data})
		if t != "" {
			stub.es = append(stub.es, &gdbi.Edge{ID: "a:" + f + "-" + le + "-b:" + t, From: "a:" + f, To: "b:" + t, Label: le,
				Data: map[string]interface{}{"from": f, "to": t}, Loaded: true})
		}
	}
	conf := GraphConfig{
		Vertices: map[string]VertexConfig{
			"a:": {Label: la, Data: ElementConfig{Source: "s", Collection: "t1"}},
			"b:": {Label: lb, Data: ElementConfig{Source: "s", Collection: "t2"}},
		},
		Edges: map[string]EdgeConfig{
			"e1": {From: "a:", To: "b:", Label: le, Data: ElementConfig{Source: "s", Collection: "lt", FromField: "from", ToField: "to"}},
		},
	}
	g, err := NewTabularGraph(conf, map[string]GRIPSourceClient{"s": src})
	vAssert("C15.trav.graph-builds", err == nil)
	if err != nil {
		return
	}
	stub.compiler = func(s *vGraph) gdbi.Compiler { return core.NewCompiler(s, core.IndexStartOptimize) }
	var stmts []*gripql.GraphStatement
	switch vChoice("start", 4) {
	case 0:
		stmts = append(stmts, sV())
	case 1:
		stmts = append(stmts, sV("a:"+c15ID("start.i", 'a', 'c')))
	case 2:
		stmts = append(stmts, sV("b:"+c15ID("start.i", 'a', 'c')))
	default:
		stmts = append(stmts, sE())
	}
	n := vChoice("len", N+1)
	for i := 0; i < n; i++ {
		name := "q" + string(rune('0'+i))
		switch vChoice(name, 8) {
		case 0:
			stmts = append(stmts, sOut())
		case 1:
			stmts = append(stmts, sIn())
		case 2:
			stmts = append(stmts, sOutE())
		case 3:
			stmts = append(stmts, sInE())
		case 4:
			stmts = append(stmts, sHasLabel(c15ID(name+".l", 'A', 'B')))
		case 5:
			stmts = append(stmts, sOut(c15ID(name+".l", 'A', 'B')))
		case 6:
			stmts = append(stmts, sBoth())
		default:
			stmts = append(stmts, sCount())
		}
	}
	pr, errR := g.Compiler().Compile(stmts, nil)
	ps, errS := stub.Compiler().Compile(stmts, nil)
	vAssert("C15.trav.accept-agree", (errR == nil) == (errS == nil))
	if errR != nil || errS != nil {
		return
	}
	got := vRunPipe(g, pr, 2)
	want := vRunPipe(stub, ps, 2)
	vReach("c15.trav.ran")
	vAssert("C15.trav.rows-equal-described-graph", c15RowsEq(got, want))
}
