package PKG

import (
	"context"
	"io"

	"github.com/bmeg/grip/gdbi"
	"github.com/bmeg/grip/gripql"
	"google.golang.org/grpc"
	"google.golang.org/protobuf/types/known/structpb"
)

func init() {
	vHarnesses["VerifH_C15_rewrite"] = VerifH_C15_rewrite
	vHarnesses["VerifH_C15_edgeid"] = VerifH_C15_edgeid
	vHarnesses["VerifH_C15_vertices"] = VerifH_C15_vertices
	vHarnesses["VerifH_C15_lookup"] = VerifH_C15_lookup
	vHarnesses["VerifH_C15_edges"] = VerifH_C15_edges
}

func c15List(ss ...string) *structpb.ListValue {
	l := &structpb.ListValue{}
	for _, s := range ss {
		l.Values = append(l.Values, structpb.NewStringValue(s))
	}
	return l
}

func c15ID(name string, lo, hi byte) string {
	s := vNondetStringN(name, 1)
	vAssume(s[0] >= lo && s[0] <= hi)
	return s
}

func c15In(l []string, s string) bool {
	for _, x := range l {
		if x == s {
			return true
		}
	}
	return false
}

// VerifH_C15_rewrite: the driver's own start optimisation selects the same
// vertices as the literal V(ids).hasLabel(..).hasLabel(..) prefix it replaces.
func VerifH_C15_rewrite() {
	var ids []string
	if vChoice("ids", 2) == 1 {
		ids = []string{c15ID("id0", 'a', 'b')}
	}
	nl := 1 + vChoice("nlabels", 2)
	var labelLists [][]string
	stmts := []*gripql.GraphStatement{{Statement: &gripql.GraphStatement_V{V: c15List(ids...)}}}
	for i := 0; i < nl; i++ {
		ls := []string{c15ID("l"+string(rune('0'+i)), 'A', 'B')}
		labelLists = append(labelLists, ls)
		stmts = append(stmts, &gripql.GraphStatement{Statement: &gripql.GraphStatement_HasLabel{HasLabel: c15List(ls...)}})
	}
	stmts = append(stmts, &gripql.GraphStatement{Statement: &gripql.GraphStatement_Out{Out: c15List()}})
	// one arbitrary vertex
	vid := c15ID("v.id", 'a', 'b')
	vlabel := c15ID("v.label", 'A', 'B')
	literal := len(ids) == 0 || c15In(ids, vid)
	for _, ls := range labelLists {
		if !c15In(ls, vlabel) {
			literal = false
		}
	}
	out := TabularOptimizer(stmts)
	vAssert("C15.rewrite.nonempty", len(out) > 0)
	custom, ok := out[0].GetStatement().(*gripql.GraphStatement_EngineCustom)
	if !ok {
		// the optimisation is optional: when it does not apply the traversal is left as it is
		same := len(out) == len(stmts)
		for i := range stmts {
			same = same && i < len(out) && out[i] == stmts[i]
		}
		vAssert("C15.rewrite.unchanged-when-not-applied", same)
		return
	}
	vReach("c15.rewrite.applied")
	step := custom.Custom.(tabularHasLabelStep)
	rewritten := c15In(step.labels, vlabel)
	for _, s := range out[1:] {
		if h, ok := s.GetStatement().(*gripql.GraphStatement_HasLabel); ok {
			keep := false
			for _, v := range h.HasLabel.Values {
				if v.GetStringValue() == vlabel {
					keep = true
				}
			}
			if !keep {
				rewritten = false
			}
		}
	}
	vKnownFor("C15/rewrite-drops-ids-and-labels", len(ids) > 0 || nl > 1, "C15.rewrite.same-selection")
	vAssert("C15.rewrite.same-selection", rewritten == literal)
}

func c15HasDash(ss ...string) bool {
	for _, s := range ss {
		for i := 0; i < len(s); i++ {
			if s[i] == '-' {
				return true
			}
		}
	}
	return false
}

// VerifH_C15_edgeid: an edge id generated for a link row parses back to its endpoints and label.
func VerifH_C15_edgeid() {
	L := vParam("L", 2)
	pf := vNondetString("fromPrefix", 1)
	pt := vNondetString("toPrefix", 1)
	label := vNondetString("label", L)
	src := vNondetString("src", L)
	dst := vNondetString("dst", L)
	es := &EdgeSource{fromVertex: &VertexSource{prefix: pf}, toVertex: &VertexSource{prefix: pt}, config: &EdgeConfig{Label: label}}
	g := &TabularGraph{}
	id := es.GenID(src, dst)
	a, b, l, err := g.ParseEdge(id)
	vKnownFor("C15/edge-id-splits-on-dash", c15HasDash(pf, pt, label, src, dst), "C15.edgeid.roundtrip")
	vAssert("C15.edgeid.roundtrip", err == nil && a == pf+src && b == pt+dst && l == label)
}

// ---- a table service behind the generated client interface ----

type c15Table struct {
	rows []*Row
}

type c15Source struct {
	tables map[string]*c15Table
}

type c15Rows struct {
	grpc.ClientStream
	rows []*Row
	pos  int
}

func (s *c15Rows) Recv() (*Row, error) {
	if s.pos >= len(s.rows) {
		return nil, io.EOF
	}
	s.pos++
	return s.rows[s.pos-1], nil
}

type c15ByID struct {
	grpc.ClientStream
	table *c15Table
	reqs  chan *RowRequest
}

func (s *c15ByID) Send(r *RowRequest) error { s.reqs <- r; return nil }
func (s *c15ByID) CloseSend() error         { close(s.reqs); return nil }
func (s *c15ByID) Recv() (*Row, error) {
	for r := range s.reqs {
		if s.table != nil {
			for _, row := range s.table.rows {
				if row.Id == r.Id {
					return &Row{Id: row.Id, Data: row.Data, RequestID: r.RequestID}, nil
				}
			}
		}
	}
	return nil, io.EOF
}

func (c *c15Source) GetCollections(ctx context.Context, in *Empty, opts ...grpc.CallOption) (GRIPSource_GetCollectionsClient, error) {
	return nil, io.EOF
}
func (c *c15Source) GetCollectionInfo(ctx context.Context, in *Collection, opts ...grpc.CallOption) (*CollectionInfo, error) {
	if _, ok := c.tables[in.Name]; !ok {
		return nil, io.EOF
	}
	return &CollectionInfo{SearchFields: []string{"from", "to"}}, nil
}
func (c *c15Source) GetIDs(ctx context.Context, in *Collection, opts ...grpc.CallOption) (GRIPSource_GetIDsClient, error) {
	t := c.tables[in.Name]
	if t == nil {
		return nil, io.EOF
	}
	return &c15IDs{rows: t.rows}, nil
}

type c15IDs struct {
	grpc.ClientStream
	rows []*Row
	pos  int
}

func (s *c15IDs) Recv() (*RowID, error) {
	if s.pos >= len(s.rows) {
		return nil, io.EOF
	}
	s.pos++
	return &RowID{Id: s.rows[s.pos-1].Id}, nil
}
func (c *c15Source) GetRows(ctx context.Context, in *Collection, opts ...grpc.CallOption) (GRIPSource_GetRowsClient, error) {
	t := c.tables[in.Name]
	if t == nil {
		return nil, io.EOF
	}
	return &c15Rows{rows: t.rows}, nil
}
func (c *c15Source) GetRowsByID(ctx context.Context, opts ...grpc.CallOption) (GRIPSource_GetRowsByIDClient, error) {
	return &c15ByIDRouter{src: c, reqs: make(chan *RowRequest, 10)}, nil
}
func (c *c15Source) GetRowsByField(ctx context.Context, in *FieldRequest, opts ...grpc.CallOption) (GRIPSource_GetRowsByFieldClient, error) {
	t := c.tables[in.Collection]
	if t == nil {
		return nil, io.EOF
	}
	// the rows whose field holds exactly the requested string
	var rows []*Row
	for _, row := range t.rows {
		if row.Data == nil {
			continue
		}
		if f, ok := row.Data.Fields[in.Field]; ok {
			if sv, ok := f.Kind.(*structpb.Value_StringValue); ok && sv.StringValue == in.Value {
				rows = append(rows, row)
			}
		}
	}
	return &c15Rows{rows: rows}, nil
}

// the by-id stream names the collection in every request
type c15ByIDRouter struct {
	grpc.ClientStream
	src  *c15Source
	reqs chan *RowRequest
}

func (s *c15ByIDRouter) Send(r *RowRequest) error { s.reqs <- r; return nil }
func (s *c15ByIDRouter) CloseSend() error         { close(s.reqs); return nil }
func (s *c15ByIDRouter) Recv() (*Row, error) {
	for r := range s.reqs {
		if t := s.src.tables[r.Collection]; t != nil {
			for _, row := range t.rows {
				if row.Id == r.Id {
					return &Row{Id: row.Id, Data: row.Data, RequestID: r.RequestID}, nil
				}
			}
		}
	}
	return nil, io.EOF
}

func c15Data(k string, v string) *structpb.Struct {
	return &structpb.Struct{Fields: map[string]*structpb.Value{k: structpb.NewStringValue(v)}}
}

// VerifH_C15_vertices: one vertex per table row (id = prefix + row id, mapped
// label, row as properties); lookups by id return that vertex or nothing; write
// calls are refused.
func VerifH_C15_vertices() {
	// two vertex tables whose prefixes are "p" and "pq" (one a prefix of the other)
	r1 := c15ID("t1.row.0", 'q', 'r') + c15ID("t1.row.1", 'q', 'r')
	r2 := c15ID("t2.row", 'q', 'r')
	src := &c15Source{tables: map[string]*c15Table{
		"t1": {rows: []*Row{{Id: r1, Data: c15Data("name", "one")}}},
		"t2": {rows: []*Row{{Id: r2, Data: c15Data("name", "two")}}},
	}}
	conf := GraphConfig{
		Vertices: map[string]VertexConfig{
			"p":  {Label: "A", Data: ElementConfig{Source: "s", Collection: "t1"}},
			"pq": {Label: "B", Data: ElementConfig{Source: "s", Collection: "t2"}},
		},
		Edges: map[string]EdgeConfig{},
	}
	g, err := NewTabularGraph(conf, map[string]GRIPSourceClient{"s": src})
	vAssert("C15.vertices.graph-builds", err == nil)
	if err != nil {
		return
	}
	var got []*gdbi.Vertex
	for v := range g.GetVertexList(context.Background(), true) {
		got = append(got, v)
	}
	vAssert("C15.vertices.one-per-row", len(got) == 2)
	id1, id2 := "p"+r1, "pq"+r2
	n1, n2 := 0, 0
	for _, v := range got {
		if v.ID == id1 && v.Label == "A" && v.Data["name"] == "one" {
			n1++
		}
		if v.ID == id2 && v.Label == "B" && v.Data["name"] == "two" {
			n2++
		}
	}
	vKnownFor("C15/prefix-of-prefix-ambiguous", id1 == id2, "C15.vertices.listing-exact,C15.vertices.lookup")
	vReach("c15.vertices.listed")
	vAssert("C15.vertices.listing-exact", n1 == 1 && n2 == 1)
	// lookup of the second table's vertex must not be answered from the first table
	v2 := g.GetVertex(id2, true)
	vAssert("C15.vertices.lookup", v2 != nil && v2.ID == id2 && v2.Label == "B" && v2.Data["name"] == "two")
	vAssert("C15.vertices.lookup-absent", g.GetVertex("zz", true) == nil)
	// writes are refused
	vAssert("C15.writes-refused", g.AddVertex([]*gdbi.Vertex{{ID: "x", Label: "A"}}) != nil && g.AddEdge([]*gdbi.Edge{{ID: "e", From: "a", To: "b", Label: "L"}}) != nil &&
		g.DelVertex(id1) != nil && g.DelEdge("e") != nil && g.BulkAdd(nil) != nil)
}

// VerifH_C15_lookup: a stream of vertex lookups that reaches both vertex tables
// (their labels equal or different) returns, per request, the vertex of that
// table row - right id, label and properties - and nothing for an absent row.
func VerifH_C15_lookup() {
	l1 := c15ID("t1.label", 'A', 'B')
	l2 := c15ID("t2.label", 'A', 'B')
	r1 := c15ID("t1.row", 'q', 'r')
	r2 := c15ID("t2.row", 'q', 'r')
	src := &c15Source{tables: map[string]*c15Table{
		"t1": {rows: []*Row{{Id: r1, Data: c15Data("name", "one")}}},
		"t2": {rows: []*Row{{Id: r2, Data: c15Data("name", "two")}}},
	}}
	conf := GraphConfig{
		Vertices: map[string]VertexConfig{
			"a:": {Label: l1, Data: ElementConfig{Source: "s", Collection: "t1"}},
			"b:": {Label: l2, Data: ElementConfig{Source: "s", Collection: "t2"}},
		},
		Edges: map[string]EdgeConfig{},
	}
	g, err := NewTabularGraph(conf, map[string]GRIPSourceClient{"s": src})
	vAssert("C15.lookup.graph-builds", err == nil)
	if err != nil {
		return
	}
	n := 1 + vChoice("requests", vParam("R", 3))
	ids := make([]string, n)
	req := make(chan gdbi.ElementLookup, n)
	for i := 0; i < n; i++ {
		ids[i] = []string{"a:" + r1, "b:" + r2, "a:zz", "b:" + r1}[vChoice("req"+string(rune('0'+i)), 4)]
		req <- gdbi.ElementLookup{ID: ids[i]}
	}
	close(req)
	var got []gdbi.ElementLookup
	for o := range g.GetVertexChannel(context.Background(), req, true) {
		got = append(got, o)
	}
	vReach("c15.lookup.ran")
	// expected: per request whose row exists, one answer carrying that vertex
	want := 0
	for _, id := range ids {
		exists := id == "a:"+r1 || id == "b:"+r2
		if !exists {
			continue
		}
		want++
		label, name := l1, "one"
		if id[0] == 'b' {
			label, name = l2, "two"
		}
		nw, ng := 0, 0
		for _, id2 := range ids {
			if id2 == id {
				nw++
			}
		}
		for _, o := range got {
			if o.ID == id && o.Vertex != nil && o.Vertex.ID == id && o.Vertex.Label == label && o.Vertex.Data["name"] == name {
				ng++
			}
		}
		vAssert("C15.lookup.answer-per-request", nw == ng)
	}
	vAssert("C15.lookup.no-extra-answers", len(got) == want)
}

// ---- edges synthesised from link rows ----

type c15Edge struct {
	id, from, to, label, w string
}

// a link-table field: a row id in [q-s], the empty string, a number, or missing
func c15LinkField(name string, data *structpb.Struct, field string) (string, bool) {
	switch vChoice(name+".kind", 4) {
	case 0:
		s := c15ID(name, 'a', 'c')
		data.Fields[field] = structpb.NewStringValue(s)
		return s, true
	case 1:
		data.Fields[field] = structpb.NewStringValue("")
		return "", false
	case 2:
		data.Fields[field] = structpb.NewNumberValue(1)
		return "", false
	}
	return "", false
}

func c15EdgeMatches(o *gdbi.Edge, e c15Edge) bool {
	return o != nil && o.ID == e.id && o.From == e.from && o.To == e.to && o.Label == e.label && o.Data["w"] == e.w
}

func c15LabelOK(filter []string, l string) bool {
	return len(filter) == 0 || c15In(filter, l)
}

// VerifH_C15_edges: one edge per link row with non-empty string endpoints; the
// edge listing, the edge lookup, the four adjacency channels (with label filter
// and null emission) and the label listings agree with the graph the mapping
// describes.
func VerifH_C15_edges() {
	NL := vParam("NL", 2)
	BOTH := vParam("BOTH", 0)
	l1 := c15ID("e1.label", 'A', 'B')
	// row ids may begin with a character of their table's prefix
	r1 := c15ID("t1.row", 'a', 'b')
	r2 := c15ID("t2.row", 'a', 'b')
	src := &c15Source{tables: map[string]*c15Table{
		"t1": {rows: []*Row{{Id: r1, Data: c15Data("name", "one")}}},
		"t2": {rows: []*Row{{Id: r2, Data: c15Data("name", "two")}}},
		"lt": {},
		"lu": {},
	}}
	var ref []c15Edge
	nl := 1 + vChoice("linkrows", NL)
	for i := 0; i < nl; i++ {
		nm := "lt" + string(rune('0'+i))
		w := c15ID(nm+".w", 'x', 'y')
		data := c15Data("w", w)
		var f, t string
		var fok, tok bool
		if i == 0 && vParam("FULL", 0) == 1 {
			f, fok = c15LinkField(nm+".from", data, "from")
			t, tok = c15LinkField(nm+".to", data, "to")
		} else if i == 0 {
			// quick tier: one field of the pair is a row id, the other of any kind
			if vChoice(nm+".odd-side", 2) == 0 {
				f, fok = c15ID(nm+".from", 'a', 'c'), true
				data.Fields["from"] = structpb.NewStringValue(f)
				t, tok = c15LinkField(nm+".to", data, "to")
			} else {
				t, tok = c15ID(nm+".to", 'a', 'c'), true
				data.Fields["to"] = structpb.NewStringValue(t)
				switch vChoice(nm+".from.kind", 3) {
				case 0:
					data.Fields["from"] = structpb.NewStringValue("")
				case 1:
					data.Fields["from"] = structpb.NewNumberValue(1)
				}
			}
		} else {
			// further rows: a link (possibly a repeated one) or a row without target
			f, fok = c15ID(nm+".from", 'a', 'c'), true
			data.Fields["from"] = structpb.NewStringValue(f)
			if vChoice(nm+".to.kind", 2) == 0 {
				t, tok = c15ID(nm+".to", 'a', 'c'), true
			}
			data.Fields["to"] = structpb.NewStringValue(t)
		}
		src.tables["lt"].rows = append(src.tables["lt"].rows, &Row{Id: "k" + string(rune('0'+i)), Data: data})
		if fok && tok {
			ref = append(ref, c15Edge{id: "a:" + f + "-" + l1 + "-b:" + t, from: "a:" + f, to: "b:" + t, label: l1, w: w})
		}
	}
	conf := GraphConfig{
		Vertices: map[string]VertexConfig{
			"a:": {Label: "VA", Data: ElementConfig{Source: "s", Collection: "t1"}},
			"b:": {Label: "VB", Data: ElementConfig{Source: "s", Collection: "t2"}},
		},
		Edges: map[string]EdgeConfig{
			"e1": {From: "a:", To: "b:", Label: l1, Data: ElementConfig{Source: "s", Collection: "lt", FromField: "from", ToField: "to"}},
		},
	}
	labels := []string{l1}
	if vParam("REV", 0) == 1 && vChoice("same-table-reversed", 2) == 1 {
		// the same link table exposed as a second edge type in the opposite direction
		// (from and to fields exchanged); row ids of the two vertex tables may coincide
		l2 := c15ID("e2.label", 'A', 'B')
		for _, e := range append([]c15Edge{}, ref...) {
			ref = append(ref, c15Edge{id: e.to + "-" + l2 + "-" + e.from, from: e.to, to: e.from, label: l2, w: e.w})
		}
		conf.Edges["e2"] = EdgeConfig{From: "b:", To: "a:", Label: l2, Data: ElementConfig{Source: "s", Collection: "lt", FromField: "to", ToField: "from"}}
		if l2 != l1 {
			labels = append(labels, l2)
		}
	} else if BOTH == 1 && vChoice("second-edge-table", 2) == 1 {
		// a second link table in the opposite direction
		l2 := c15ID("e2.label", 'A', 'B')
		w := c15ID("lu0.w", 'x', 'y')
		data := c15Data("w", w)
		f, fok := c15LinkField("lu0.from", data, "src")
		t, tok := c15LinkField("lu0.to", data, "dst")
		src.tables["lu"].rows = append(src.tables["lu"].rows, &Row{Id: "m0", Data: data})
		if fok && tok {
			ref = append(ref, c15Edge{id: "b:" + f + "-" + l2 + "-a:" + t, from: "b:" + f, to: "a:" + t, label: l2, w: w})
		}
		conf.Edges["e2"] = EdgeConfig{From: "b:", To: "a:", Label: l2, Data: ElementConfig{Source: "s", Collection: "lu", FromField: "src", ToField: "dst"}}
		if l2 != l1 {
			labels = append(labels, l2)
		}
	}
	g, err := NewTabularGraph(conf, map[string]GRIPSourceClient{"s": src})
	vAssert("C15.edges.graph-builds", err == nil)
	if err != nil {
		return
	}
	ctx := context.Background()
	switch vChoice("observation", 4) {
	case 0: // edge listing
		var got []*gdbi.Edge
		for e := range g.GetEdgeList(ctx, true) {
			got = append(got, e)
		}
		vReach("c15.edges.listed")
		vAssert("C15.edges.list-count", len(got) == len(ref))
		for _, e := range ref {
			nw, ng := 0, 0
			for _, e2 := range ref {
				if e2 == e {
					nw++
				}
			}
			for _, o := range got {
				if c15EdgeMatches(o, e) {
					ng++
				}
			}
			vAssert("C15.edges.list-exact", nw == ng)
		}
	case 1: // edge lookup by id
		for _, e := range ref {
			o := g.GetEdge(e.id, true)
			// repeated links share one id: any of their rows may answer
			ok := false
			for _, e2 := range ref {
				if e2.id == e.id && c15EdgeMatches(o, e2) {
					ok = true
				}
			}
			vAssert("C15.edges.lookup", ok)
		}
		vAssert("C15.edges.lookup-absent", g.GetEdge("a:z-"+l1+"-b:z", true) == nil && g.GetEdge("nonsense", true) == nil)
	case 2: // label listings and label scan
		el, err := g.ListEdgeLabels()
		okl := err == nil && len(el) == len(labels)
		for _, l := range labels {
			okl = okl && c15In(el, l)
		}
		vAssert("C15.edges.labels", okl)
		vl, err := g.ListVertexLabels()
		vAssert("C15.vertices.labels", err == nil && len(vl) == 2 && c15In(vl, "VA") && c15In(vl, "VB"))
		var ids []string
		for id := range g.VertexLabelScan(ctx, "VB") {
			ids = append(ids, id)
		}
		vAssert("C15.vertices.label-scan", len(ids) == 1 && ids[0] == "b:"+r2)
	default: // adjacency channels
		c15Adjacency(g, ref, l1, r1, r2)
	}
}

func c15Adjacency(g *TabularGraph, ref []c15Edge, l1, r1, r2 string) {
	ctx := context.Background()
	dir := vChoice("direction", 2)   // 0 = out, 1 = in
	toEdge := vChoice("to-edge", 2)  // adjacent edges or adjacent vertices
	emitNull := vChoice("emit-null", 2) == 1
	var filter []string
	switch vChoice("label-filter", 3) {
	case 1:
		filter = []string{l1}
	case 2:
		filter = []string{"B"}
	}
	starts := []string{"a:" + r1, "b:" + r2, "a:c", "b:c", "zz"}
	n := 1 + vChoice("requests", 2)
	reqs := make([]gdbi.ElementLookup, n)
	req := make(chan gdbi.ElementLookup, n)
	for i := 0; i < n; i++ {
		var start string
		if n == 1 {
			start = starts[vChoice("req0", len(starts))]
		} else {
			// two requests: the rows of the two tables in either order
			start = starts[(i+vChoice("req-order", 2))%2]
		}
		reqs[i] = gdbi.ElementLookup{ID: start, Ref: &gdbi.BaseTraveler{}}
		req <- reqs[i]
	}
	close(req)
	var ch chan gdbi.ElementLookup
	switch {
	case dir == 0 && toEdge == 1:
		ch = g.GetOutEdgeChannel(ctx, req, true, emitNull, filter)
	case dir == 1 && toEdge == 1:
		ch = g.GetInEdgeChannel(ctx, req, true, emitNull, filter)
	case dir == 0:
		ch = g.GetOutChannel(ctx, req, true, emitNull, filter)
	default:
		ch = g.GetInChannel(ctx, req, true, emitNull, filter)
	}
	var got []gdbi.ElementLookup
	for o := range ch {
		got = append(got, o)
	}
	vReach("c15.edges.adjacency-ran")
	total := 0
	for _, r := range reqs {
		// the edges of the described graph that this request reaches
		var want []c15Edge
		for _, e := range ref {
			if c15LabelOK(filter, e.label) && ((dir == 0 && e.from == r.ID) || (dir == 1 && e.to == r.ID)) {
				want = append(want, e)
			}
		}
		var mine []gdbi.ElementLookup
		for _, o := range got {
			if o.Ref == r.Ref {
				mine = append(mine, o)
			}
		}
		if toEdge == 1 {
			if len(want) == 0 && emitNull {
				vAssert("C15.adj.null-edge-when-none", len(mine) == 1 && mine[0].Edge == nil)
				total++
				continue
			}
			vAssert("C15.adj.edge-count", len(mine) == len(want))
			for _, e := range want {
				nw, ng := 0, 0
				for _, e2 := range want {
					if e2 == e {
						nw++
					}
				}
				for _, o := range mine {
					if c15EdgeMatches(o.Edge, e) {
						ng++
					}
				}
				vAssert("C15.adj.edges-exact", nw == ng)
			}
			total += len(want)
			continue
		}
		// adjacent vertices: one per reached edge whose far endpoint is a table row
		if len(want) == 0 && emitNull {
			vAssert("C15.adj.null-vertex-when-none", len(mine) == 1 && mine[0].Vertex == nil)
			total++
			continue
		}
		nv := 0
		for _, e := range want {
			far := e.to
			if dir == 1 {
				far = e.from
			}
			if far == "a:"+r1 || far == "b:"+r2 {
				nv++
			}
		}
		vAssert("C15.adj.vertex-count", len(mine) == nv)
		for _, o := range mine {
			ok := o.Vertex != nil && ((o.Vertex.ID == "a:"+r1 && o.Vertex.Label == "VA" && o.Vertex.Data["name"] == "one") ||
				(o.Vertex.ID == "b:"+r2 && o.Vertex.Label == "VB" && o.Vertex.Data["name"] == "two"))
			far := false
			for _, e := range want {
				if o.Vertex != nil && ((dir == 0 && e.to == o.Vertex.ID) || (dir == 1 && e.from == o.Vertex.ID)) {
					far = true
				}
			}
			vAssert("C15.adj.vertices-exact", ok && far)
		}
		total += nv
	}
	vAssert("C15.adj.no-extra-answers", len(got) == total)
}
