package PKG

import (
	"github.com/bmeg/grip/gdbi"
)

func init() {
	vHarnesses["VerifH_C03_history"] = VerifH_C03_history
}

// small symbolic identifiers: one byte from a three-letter alphabet, so that
// collisions, re-adds, dangling endpoints and self loops are all assignments.
func c03ID(name string, lo, hi byte) string {
	s := vNondetStringN(name, 1)
	vAssume(s[0] >= lo && s[0] <= hi)
	return s
}

const c03LabelAsserts = "C03.vertex-labels,C04.labelscan,C04.vertex-labels"

// c03SetVertex updates the model; re-labelling an existing vertex is where the
// label index is known to keep the old entry.
func c03SetVertex(g *mGraph, v *gdbi.Vertex) {
	if i := g.vIndex(v.ID); i >= 0 {
		vKnownFor("C03/relabel-leaves-label-entry", g.vs[i].label != v.Label, c03LabelAsserts)
	}
	g.setVertex(v.ID, v.Label, v.Data["k"])
}

type c03World struct {
	kv    *vKV
	db    *KVGraph
	gi    gdbi.GraphInterface
	model *mGraph
	ts    string
	// a listed finding made store and model diverge wholesale: the history ends after this step
	diverged bool
}

func c03Universe() []string { return []string{"a", "b", "c"}[:vParam("NV", 3)] }

func c03VHi() byte { return 'a' + byte(vParam("NV", 3)) - 1 }
func c03EHi() byte { return 'e' + byte(vParam("NE", 2)) - 1 }

// c03Observe compares everything observable about the graph with the model.
func c03Observe(w *c03World, step string) {
	g := w.model
	vAssert("C03.vertex-list", vSortedEq(vObsVertexIDs(w.gi), g.obsVertexIDs()))
	vAssert("C03.edge-list", vSortedEq(vObsEdgeIDs(w.gi), g.obsEdgeIDs()))
	for _, id := range c03Universe() {
		v := w.gi.GetVertex(id, true)
		i := g.vIndex(id)
		if i < 0 {
			vAssert("C03.get-vertex-absent", v == nil)
		} else {
			vAssert("C03.get-vertex", v != nil && v.ID == id && v.Label == g.vs[i].label && len(v.Data) == 1 && c08EqLocal(v.Data["k"], g.vs[i].val))
		}
		vAssert("C03.out", vSortedEq(vObsOut(w.gi, id, nil), g.obsOut(id, nil)))
		vAssert("C03.in", vSortedEq(vObsIn(w.gi, id, nil), g.obsIn(id, nil)))
		vAssert("C03.outE", vSortedEq(vObsOutE(w.gi, id, nil, true), g.obsOutE(id, nil)))
		vAssert("C03.inE", vSortedEq(vObsInE(w.gi, id, nil, false), g.obsInE(id, nil)))
		vAssert("C03.out-label", vSortedEq(vObsOut(w.gi, id, []string{"A"}), g.obsOut(id, []string{"A"})))
		vAssert("C03.inE-label", vSortedEq(vObsInE(w.gi, id, []string{"A"}, true), g.obsInE(id, []string{"A"})))
	}
	for _, id := range []string{"e", "f"}[:vParam("NE", 2)] {
		e := w.gi.GetEdge(id, true)
		i := g.eIndex(id)
		if i < 0 {
			vAssert("C03.get-edge-absent", e == nil)
		} else {
			vAssert("C03.get-edge", e != nil && e.ID == id && e.From == g.es[i].from && e.To == g.es[i].to && e.Label == g.es[i].label)
		}
	}
	vl, _ := w.gi.ListVertexLabels()
	vAssert("C03.vertex-labels", vSortedEq(vl, g.vLabels()))
	el, _ := w.gi.ListEdgeLabels()
	vAssert("C03.edge-labels", vSortedEq(el, g.eLabels()))
}

func c03Vertex(name string) (*gdbi.Vertex, bool) {
	id := c03ID(name+".id", 'a', c03VHi())
	label := c03ID(name+".label", 'A', 'B')
	val := vFinite(name + ".val")
	valid := true
	switch vChoice(name+".defect", 3) {
	case 1:
		label = ""
		valid = false
	case 2:
		id = ""
		valid = false
	}
	return &gdbi.Vertex{ID: id, Label: label, Data: map[string]interface{}{"k": val}}, valid
}

func c03Edge(name string) (*gdbi.Edge, bool) {
	id := c03ID(name+".id", 'e', c03EHi())
	from := c03ID(name+".from", 'a', c03VHi())
	to := c03ID(name+".to", 'a', c03VHi())
	label := c03ID(name+".label", 'A', 'B')
	valid := true
	if vChoice(name+".defect", 2) == 1 {
		to = ""
		valid = false
	}
	return &gdbi.Edge{ID: id, From: from, To: to, Label: label, Data: map[string]interface{}{}}, valid
}

// c03Step applies one symbolic operation to the real graph and to the model.
func c03Step(w *c03World, name string) {
	g := w.model
	before := w.gi.GetTimestamp()
	mutated := false
	op := vChoice(name+".op", 6)
	switch op {
	case 0: // AddVertex, one element
		v, valid := c03Vertex(name + ".v")
		err := w.gi.AddVertex([]*gdbi.Vertex{v})
		vAssert("C03.addvertex.error-iff-invalid", (err != nil) == !valid)
		if valid {
			c03SetVertex(g, v)
			mutated = true
		}
	case 1: // AddVertex, two elements in one call
		v1, ok1 := c03Vertex(name + ".v1")
		v2, ok2 := c03Vertex(name + ".v2")
		vKnown("C03/batch-invalid-drops-valid", ok1 != ok2)
		w.diverged = ok1 != ok2
		err := w.gi.AddVertex([]*gdbi.Vertex{v1, v2})
		vAssert("C03.addvertex2.error-iff-invalid", (err != nil) == !(ok1 && ok2))
		if ok1 {
			c03SetVertex(g, v1)
			mutated = true
		}
		if ok2 {
			c03SetVertex(g, v2)
			mutated = true
		}
	case 2: // AddEdge
		e, valid := c03Edge(name + ".e")
		err := w.gi.AddEdge([]*gdbi.Edge{e})
		vAssert("C03.addedge.error-iff-invalid", (err != nil) == !valid)
		if valid {
			c03SetEdge(w, e)
			mutated = true
		}
	case 3: // BulkAdd of a vertex and an edge
		v, okv := c03Vertex(name + ".bv")
		e, oke := c03Edge(name + ".be")
		vKnown("C03/batch-invalid-drops-valid", okv != oke)
		w.diverged = w.diverged || okv != oke
		ch := make(chan *gdbi.GraphElement, 2)
		ch <- &gdbi.GraphElement{Graph: "g", Vertex: v}
		ch <- &gdbi.GraphElement{Graph: "g", Edge: e}
		close(ch)
		w.gi.BulkAdd(ch)
		if okv {
			c03SetVertex(g, v)
			mutated = true
		}
		if oke {
			c03SetEdge(w, e)
			mutated = true
		}
	case 4: // DelVertex
		id := c03ID(name+".dv", 'a', c03VHi())
		present := g.vIndex(id) >= 0
		w.gi.DelVertex(id)
		// deleting a vertex that is absent still removes nothing else
		if present {
			mutated = true
			vKnownFor("C03/delvertex-leaves-label-entry", true, c03LabelAsserts)
		}
		hadEdges := false
		for _, e := range g.es {
			if e.from == id || e.to == id {
				hadEdges = true
			}
		}
		vKnownFor("C03/deledge-leaves-label-entry", hadEdges, "C03.edge-labels")
		if !present && hadEdges {
			// edges pointing at an absent vertex: the documentation does not say
			// whether DelVertex of that id cascades; leave undefined
			vAssume(false)
		}
		g.delVertex(id)
	case 5: // DelEdge
		id := c03ID(name+".de", 'e', c03EHi())
		present := g.delEdge(id)
		vKnownFor("C03/deledge-leaves-label-entry", present, "C03.edge-labels")
		err := w.gi.DelEdge(id)
		vAssert("C03.deledge.error-iff-absent", (err != nil) == !present)
		if present {
			mutated = true
		}
	}
	after := w.gi.GetTimestamp()
	vKnownFor("C03/touch-without-mutation", !mutated, "C03.timestamp")
	vAssert("C03.timestamp", (after != before) == mutated)
	c03Observe(w, name)
}

// c03SetEdge updates the model; re-adding an edge id with other endpoints or
// label is where the old key triple is known to survive (first divergence ends the history).
func c03SetEdge(w *c03World, e *gdbi.Edge) {
	g := w.model
	if i := g.eIndex(e.ID); i >= 0 {
		old := g.es[i]
		changed := old.from != e.From || old.to != e.To || old.label != e.Label
		vKnown("C03/edge-readd-leaves-old-keys", changed)
		if changed {
			w.diverged = true
		}
	}
	g.setEdge(e.ID, e.From, e.To, e.Label)
}

func VerifH_C03_history() {
	D := vParam("D", 2)
	kv := vNewKV()
	db := NewKVGraph(kv).(*KVGraph)
	if err := db.AddGraph("g"); err != nil {
		panic("AddGraph failed")
	}
	gi, _ := db.Graph("g")
	w := &c03World{kv: kv, db: db, gi: gi, model: &mGraph{}}
	for s := 0; s < D && !w.diverged; s++ {
		c03Step(w, "s"+string(rune('0'+s)))
	}
	vReach("history.end")
}
