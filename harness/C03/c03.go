package PKG

import (
	"github.com/bmeg/grip/gdbi"
)

func init() {
	vHarnesses["VerifH_C03_history"] = VerifH_C03_history
	vHarnesses["VerifH_C03_graphs"] = VerifH_C03_graphs
}

// small symbolic identifiers: one byte from a three-letter alphabet, so that
// collisions, re-adds, dangling endpoints and self loops are all assignments.
func c03ID(name string, lo, hi byte) string {
	s := vNondetStringN(name, 1)
	vAssume(s[0] >= lo && s[0] <= hi)
	return s
}

const c03LabelAsserts = "C03.vertex-labels,C04.labelscan,C04.vertex-labels"

// c03SetVertex updates the model; re-labelling an existing vertex is where the
// label index is known to keep the old entry.
func c03SetVertex(g *mGraph, v *gdbi.Vertex) {
	if i := g.vIndex(v.ID); i >= 0 {
		vKnownFor("C03/relabel-leaves-label-entry", g.vs[i].label != v.Label, c03LabelAsserts)
	}
	g.setVertex(v.ID, v.Label, v.Data["k"])
}

type c03World struct {
	kv    *vKV
	db    *KVGraph
	gi    gdbi.GraphInterface
	model *mGraph
	ts    string
	// a listed finding made store and model diverge wholesale: the history ends after this step
	diverged bool
}

// The identifier universes contain prefix-related names on purpose ("a"/"ab", "e"/"ee",
// "A"/"AB"): scan prefixes that are not terminated properly confuse exactly those.
func c03Universe() []string { return []string{"a", "ab", "c"}[:vParam("NV", 3)] }
func c03EdgeIDs() []string  { return []string{"e", "ee"}[:vParam("NE", 2)] }
func c03Labels() []string   { return []string{"A", "AB"} }

func c03Pick(name string, universe []string) string {
	return universe[vChoice(name, len(universe))]
}

// c03Observe compares everything observable about the graph with the model.
func c03Observe(w *c03World, step string) {
	g := w.model
	vAssert("C03.vertex-list", vSortedEq(vObsVertexIDs(w.gi), g.obsVertexIDs()))
	vAssert("C03.edge-list", vSortedEq(vObsEdgeIDs(w.gi), g.obsEdgeIDs()))
	for _, id := range c03Universe() {
		v := w.gi.GetVertex(id, true)
		i := g.vIndex(id)
		if i < 0 {
			vAssert("C03.get-vertex-absent", v == nil)
		} else {
			vAssert("C03.get-vertex", v != nil && v.ID == id && v.Label == g.vs[i].label && len(v.Data) == 1 && c08EqLocal(v.Data["k"], g.vs[i].val))
		}
		vAssert("C03.out", vSortedEq(vObsOut(w.gi, id, nil), g.obsOut(id, nil)))
		vAssert("C03.in", vSortedEq(vObsIn(w.gi, id, nil), g.obsIn(id, nil)))
		vAssert("C03.outE", vSortedEq(vObsOutE(w.gi, id, nil, true), g.obsOutE(id, nil)))
		vAssert("C03.inE", vSortedEq(vObsInE(w.gi, id, nil, false), g.obsInE(id, nil)))
		vAssert("C03.out-label", vSortedEq(vObsOut(w.gi, id, []string{"A"}), g.obsOut(id, []string{"A"})))
		vAssert("C03.inE-label", vSortedEq(vObsInE(w.gi, id, []string{"A"}, true), g.obsInE(id, []string{"A"})))
	}
	for _, id := range c03EdgeIDs() {
		e := w.gi.GetEdge(id, true)
		i := g.eIndex(id)
		if i < 0 {
			vAssert("C03.get-edge-absent", e == nil)
		} else {
			vAssert("C03.get-edge", e != nil && e.ID == id && e.From == g.es[i].from && e.To == g.es[i].to && e.Label == g.es[i].label)
		}
	}
	vl, _ := w.gi.ListVertexLabels()
	vAssert("C03.vertex-labels", vSortedEq(vl, g.vLabels()))
	el, _ := w.gi.ListEdgeLabels()
	vAssert("C03.edge-labels", vSortedEq(el, g.eLabels()))
}

// c03Slim: second elements of two-element calls use a reduced grid in the quick
// tier (one label, one kind of defect); SLIM=0 explores the full product.
func c03Slim(name string) bool {
	return vParam("SLIM", 0) == 1 && (len(name) > 2 && (name[len(name)-2:] == "v2" || name[len(name)-2:] == "be"))
}

func c03Vertex(name string) (*gdbi.Vertex, bool) {
	id := c03Pick(name+".id", c03Universe())
	label := "A"
	ndef := 2
	if !c03Slim(name) {
		label = c03Pick(name+".label", c03Labels())
		ndef = 3
	}
	val := vFinite(name + ".val")
	valid := true
	switch vChoice(name+".defect", ndef) {
	case 1:
		label = ""
		valid = false
	case 2:
		id = ""
		valid = false
	}
	return &gdbi.Vertex{ID: id, Label: label, Data: map[string]interface{}{"k": val}}, valid
}

func c03Edge(name string) (*gdbi.Edge, bool) {
	id := c03Pick(name+".id", c03EdgeIDs())
	from := c03Pick(name+".from", c03Universe())
	to := c03Pick(name+".to", c03Universe())
	label := "A"
	if !c03Slim(name) {
		label = c03Pick(name+".label", c03Labels())
	}
	valid := true
	if vChoice(name+".defect", 2) == 1 {
		to = ""
		valid = false
	}
	return &gdbi.Edge{ID: id, From: from, To: to, Label: label, Data: map[string]interface{}{}}, valid
}

// c03Step applies one symbolic operation to the real graph and to the model.
func c03Step(w *c03World, name string) {
	g := w.model
	before := w.gi.GetTimestamp()
	mutated := false
	op := vChoice(name+".op", 6)
	switch op {
	case 0: // AddVertex, one element
		v, valid := c03Vertex(name + ".v")
		err := w.gi.AddVertex([]*gdbi.Vertex{v})
		vAssert("C03.addvertex.error-iff-invalid", (err != nil) == !valid)
		if valid {
			c03SetVertex(g, v)
			mutated = true
		}
	case 1: // AddVertex, two elements in one call
		v1, ok1 := c03Vertex(name + ".v1")
		v2, ok2 := c03Vertex(name + ".v2")
		vKnown("C03/batch-invalid-drops-valid", ok1 != ok2)
		w.diverged = ok1 != ok2
		err := w.gi.AddVertex([]*gdbi.Vertex{v1, v2})
		vAssert("C03.addvertex2.error-iff-invalid", (err != nil) == !(ok1 && ok2))
		if ok1 {
			c03SetVertex(g, v1)
			mutated = true
		}
		if ok2 {
			c03SetVertex(g, v2)
			mutated = true
		}
	case 2: // AddEdge
		e, valid := c03Edge(name + ".e")
		err := w.gi.AddEdge([]*gdbi.Edge{e})
		vAssert("C03.addedge.error-iff-invalid", (err != nil) == !valid)
		if valid {
			c03SetEdge(w, e)
			mutated = true
		}
	case 3: // BulkAdd of a vertex and an edge
		v, okv := c03Vertex(name + ".bv")
		e, oke := c03Edge(name + ".be")
		vKnown("C03/batch-invalid-drops-valid", okv != oke)
		w.diverged = w.diverged || okv != oke
		ch := make(chan *gdbi.GraphElement, 2)
		ch <- &gdbi.GraphElement{Graph: "g", Vertex: v}
		ch <- &gdbi.GraphElement{Graph: "g", Edge: e}
		close(ch)
		w.gi.BulkAdd(ch)
		if okv {
			c03SetVertex(g, v)
			mutated = true
		}
		if oke {
			c03SetEdge(w, e)
			mutated = true
		}
	case 4: // DelVertex
		id := c03Pick(name+".dv", c03Universe())
		present := g.vIndex(id) >= 0
		w.gi.DelVertex(id)
		// deleting a vertex that is absent still removes nothing else
		if present {
			mutated = true
			vKnownFor("C03/delvertex-leaves-label-entry", true, c03LabelAsserts)
		}
		hadEdges := false
		for _, e := range g.es {
			if e.from == id || e.to == id {
				hadEdges = true
			}
		}
		vKnownFor("C03/deledge-leaves-label-entry", hadEdges, "C03.edge-labels")
		if !present && hadEdges {
			// edges pointing at an absent vertex: the documentation does not say
			// whether DelVertex of that id cascades; leave undefined
			vAssume(false)
		}
		g.delVertex(id)
	case 5: // DelEdge
		id := c03Pick(name+".de", c03EdgeIDs())
		present := g.delEdge(id)
		vKnownFor("C03/deledge-leaves-label-entry", present, "C03.edge-labels")
		err := w.gi.DelEdge(id)
		vAssert("C03.deledge.error-iff-absent", (err != nil) == !present)
		if present {
			mutated = true
		}
	}
	after := w.gi.GetTimestamp()
	vKnownFor("C03/touch-without-mutation", !mutated, "C03.timestamp")
	vAssert("C03.timestamp", (after != before) == mutated)
	c03Observe(w, name)
}

// c03SetEdge updates the model; re-adding an edge id with other endpoints or
// label is where the old key triple is known to survive (first divergence ends the history).
func c03SetEdge(w *c03World, e *gdbi.Edge) {
	g := w.model
	if i := g.eIndex(e.ID); i >= 0 {
		old := g.es[i]
		changed := old.from != e.From || old.to != e.To || old.label != e.Label
		vKnown("C03/edge-readd-leaves-old-keys", changed)
		if changed {
			w.diverged = true
		}
	}
	g.setEdge(e.ID, e.From, e.To, e.Label)
}

func VerifH_C03_history() {
	D := vParam("D", 2)
	kv := vNewKV()
	db := NewKVGraph(kv).(*KVGraph)
	if err := db.AddGraph("g"); err != nil {
		panic("AddGraph failed")
	}
	gi, _ := db.Graph("g")
	w := &c03World{kv: kv, db: db, gi: gi, model: &mGraph{}}
	for s := 0; s < D && !w.diverged; s++ {
		c03Step(w, "s"+string(rune('0'+s)))
	}
	vReach("history.end")
}

// ---- graphs are isolated from one another ----

func c03GraphIntact(db *KVGraph, name, vid, label string) bool {
	gi, err := db.Graph(name)
	if err != nil {
		return false
	}
	v := gi.GetVertex(vid, true)
	if v == nil || v.Label != label {
		return false
	}
	vl, _ := gi.ListVertexLabels()
	if len(vl) != 1 || vl[0] != label {
		return false
	}
	scan := c16LabelScan(gi, label)
	if len(scan) != 1 || scan[0] != vid {
		return false
	}
	e := gi.GetEdge("e", true)
	el, _ := gi.ListEdgeLabels()
	return e != nil && e.From == vid && e.To == vid && len(el) == 1 && el[0] == "L" && len(vObsVertexIDs(gi)) == 1 && len(vObsEdgeIDs(gi)) == 1
}

// VerifH_C03_graphs: two graphs on one store (names possibly prefixes of one
// another, or starting with a letter the key layout uses); deleting one leaves the
// other exactly as it was - also after the database is reopened - and elements
// written to the survivor after the reopen are label-indexed.
func VerifH_C03_graphs() {
	names := []string{"g", "gx", "f", "fg", "v", "x.y"}
	n1 := names[vChoice("graph1", len(names))]
	n2 := names[vChoice("graph2", len(names))]
	vAssume(n1 != n2)
	kv := vNewKV()
	db := NewKVGraph(kv).(*KVGraph)
	e1 := db.AddGraph(n1)
	e2 := db.AddGraph(n2)
	if e1 != nil || e2 != nil {
		vReach("graphs.name-refused")
		return // a refused name creates nothing (checked by C16)
	}
	for _, n := range []string{n1, n2} {
		gi, err := db.Graph(n)
		vAssert("C03.graphs.created-graph-found", err == nil)
		if err != nil {
			return
		}
		gi.AddVertex([]*gdbi.Vertex{{ID: "p", Label: "P", Data: map[string]interface{}{"k": 1.0}}})
		gi.AddEdge([]*gdbi.Edge{{ID: "e", From: "p", To: "p", Label: "L", Data: map[string]interface{}{}}})
	}
	vAssert("C03.graphs.both-intact", c03GraphIntact(db, n1, "p", "P") && c03GraphIntact(db, n2, "p", "P"))
	reopenFirst := vChoice("reopen-before-delete", 2) == 1
	if reopenFirst {
		db = NewKVGraph(kv).(*KVGraph)
	}
	db.DeleteGraph(n1)
	gs := db.ListGraphs()
	vAssert("C03.graphs.deleted-gone", len(gs) == 1 && gs[0] == n2)
	vAssert("C03.graphs.survivor-intact", c03GraphIntact(db, n2, "p", "P"))
	// reopen, then write to the survivor: the new vertex is found through the label index
	db = NewKVGraph(kv).(*KVGraph)
	vAssert("C03.graphs.survivor-intact-after-reopen", c03GraphIntact(db, n2, "p", "P"))
	gi, err := db.Graph(n2)
	if err != nil {
		return
	}
	gi.AddVertex([]*gdbi.Vertex{{ID: "q", Label: "Q", Data: map[string]interface{}{}}})
	scan := c16LabelScan(gi, "Q")
	vAssert("C04.graphs.indexed-after-reopen", len(scan) == 1 && scan[0] == "q")
	// re-creating the deleted graph starts empty
	if db.AddGraph(n1) == nil {
		g1, err := db.Graph(n1)
		vAssert("C03.graphs.recreated-empty", err == nil && len(vObsVertexIDs(g1)) == 0 && len(vObsEdgeIDs(g1)) == 0)
		if err != nil {
			return
		}
		// nothing of the previous incarnation shows through any other observation
		// either: adjacency in both directions (with and without loading the edge
		// record), neighbours, label scan
		adj := len(vObsOutE(g1, "p", nil, false)) + len(vObsOutE(g1, "p", nil, true)) +
			len(vObsInE(g1, "p", nil, false)) + len(vObsInE(g1, "p", nil, true)) +
			len(vObsOutE(g1, "p", []string{"L"}, false)) + len(vObsInE(g1, "p", []string{"L"}, false))
		vAssert("C03.graphs.recreated-no-stale-adjacency", adj == 0)
		// the neighbour listing only shows a stale entry once the endpoint exists again
		g1.AddVertex([]*gdbi.Vertex{{ID: "p", Label: "P2", Data: map[string]interface{}{}}})
		vAssert("C03.graphs.recreated-no-stale-neighbours", len(vObsOut(g1, "p", nil)) == 0 && len(vObsIn(g1, "p", nil)) == 0)
		vAssert("C03.graphs.recreated-no-stale-label", len(c16LabelScan(g1, "P")) == 0)
	}
}
