package PKG

import (
	"github.com/bmeg/grip/gdbi"
	"github.com/bmeg/grip/gripql"
	"google.golang.org/protobuf/types/known/structpb"
)

func init() { vHarnesses["VerifH_smoke"] = VerifH_smoke }

func VerifH_smoke() {
	x := vNondetFloat64("x")
	y := vNondetFloat64("y")
	vAssume(x == x && y == y)
	t := &gdbi.BaseTraveler{Current: &gdbi.DataElement{ID: "v", Label: "L", Data: map[string]interface{}{"x": x}, Loaded: true}}
	v, _ := structpb.NewValue(y)
	got := MatchesCondition(t, &gripql.HasCondition{Key: "x", Value: v, Condition: gripql.Condition_GT})
	vAssert("smoke.gt", got == (x > y))
	got2 := MatchesCondition(t, &gripql.HasCondition{Key: "x", Value: v, Condition: gripql.Condition_GTE})
	vAssert("smoke.gte-wrong", got2 == (x > y))
}
