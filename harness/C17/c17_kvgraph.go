package PKG

// C17: pairs of concurrent calls against the default graph driver (kvgraph with
// its label index and timestamp table) over the ordered-map store model. The
// store model is atomic per call, as every real store is; natively it is wrapped
// in a mutex so that the Go race detector only sees kvgraph's own state.

import (
	"context"
	"sort"
	"sync"

	"github.com/bmeg/grip/gdbi"
	"github.com/bmeg/grip/kvi"
)

func init() {
	vHarnesses["VerifH_C17_kvgraph"] = VerifH_C17_kvgraph
}

// c17LockedKV serialises the calls of the store model (used natively only).
type c17LockedKV struct {
	mu sync.Mutex
	kv *vKV
}

func (l *c17LockedKV) HasKey(k []byte) bool { l.mu.Lock(); defer l.mu.Unlock(); return l.kv.HasKey(k) }
func (l *c17LockedKV) Get(k []byte) ([]byte, error) {
	l.mu.Lock()
	defer l.mu.Unlock()
	return l.kv.Get(k)
}
func (l *c17LockedKV) Set(k, v []byte) error { l.mu.Lock(); defer l.mu.Unlock(); return l.kv.Set(k, v) }
func (l *c17LockedKV) Delete(k []byte) error { l.mu.Lock(); defer l.mu.Unlock(); return l.kv.Delete(k) }
func (l *c17LockedKV) DeletePrefix(p []byte) error {
	l.mu.Lock()
	defer l.mu.Unlock()
	return l.kv.DeletePrefix(p)
}
func (l *c17LockedKV) Close() error { return nil }
func (l *c17LockedKV) View(f func(it kvi.KVIterator) error) error {
	l.mu.Lock()
	defer l.mu.Unlock()
	return l.kv.View(f)
}
func (l *c17LockedKV) Update(f func(tx kvi.KVTransaction) error) error {
	l.mu.Lock()
	defer l.mu.Unlock()
	return l.kv.Update(f)
}
func (l *c17LockedKV) BulkWrite(f func(bl kvi.KVBulkWrite) error) error {
	l.mu.Lock()
	defer l.mu.Unlock()
	return l.kv.BulkWrite(f)
}

func c17Store() kvi.KVInterface {
	if vSymbolic() {
		return vNewKV()
	}
	return &c17LockedKV{kv: vNewKV()}
}

var c17kCalls = []string{"AddVertex", "AddEdge", "DelVertex", "DelEdge", "GetVertex", "ListVertexLabels", "LabelScan", "GetTimestamp", "AddGraph", "DeleteGraph", "ListGraphs", "OutEdges"}

func c17kSetup() *KVGraph {
	db := NewKVGraph(c17Store()).(*KVGraph)
	db.AddGraph("g")
	db.AddGraph("h")
	for _, name := range []string{"g", "h"} {
		gi, _ := db.Graph(name)
		gi.AddVertex([]*gdbi.Vertex{{ID: "a", Label: "A", Data: map[string]interface{}{}}, {ID: "b", Label: "B", Data: map[string]interface{}{}}})
		gi.AddEdge([]*gdbi.Edge{{ID: "e", From: "a", To: "b", Label: "E", Data: map[string]interface{}{}}})
	}
	return db
}

func c17kCall(db *KVGraph, call int, graph, id string) {
	switch c17kCalls[call] {
	case "AddGraph":
		db.AddGraph("n" + id)
		return
	case "DeleteGraph":
		db.DeleteGraph(graph)
		return
	case "ListGraphs":
		db.ListGraphs()
		return
	}
	gi, err := db.Graph(graph)
	if err != nil {
		return
	}
	ctx := context.Background()
	switch c17kCalls[call] {
	case "AddVertex":
		gi.AddVertex([]*gdbi.Vertex{{ID: id, Label: "A", Data: map[string]interface{}{}}})
	case "AddEdge":
		gi.AddEdge([]*gdbi.Edge{{ID: "e" + id, From: "a", To: "b", Label: "E", Data: map[string]interface{}{}}})
	case "DelVertex":
		gi.DelVertex("a")
	case "DelEdge":
		gi.DelEdge("e")
	case "GetVertex":
		gi.GetVertex("a", true)
	case "ListVertexLabels":
		gi.ListVertexLabels()
	case "LabelScan":
		for range gi.(*KVInterfaceGDB).VertexLabelScan(ctx, "A") {
		}
	case "GetTimestamp":
		gi.GetTimestamp()
	case "OutEdges":
		req := make(chan gdbi.ElementLookup, 1)
		req <- gdbi.ElementLookup{ID: "a"}
		close(req)
		for range gi.GetOutEdgeChannel(ctx, req, true, false, nil) {
		}
	}
}

// c17kObserve: what is stored after the calls (graphs, vertices and edges of g and h).
func c17kObserve(db *KVGraph) []string {
	var out []string
	gs := db.ListGraphs()
	sort.Strings(gs)
	for _, g := range gs {
		out = append(out, "graph:"+g)
		gi, err := db.Graph(g)
		if err != nil {
			continue
		}
		vs := vObsVertexIDs(gi)
		sort.Strings(vs)
		es := vObsEdgeIDs(gi)
		sort.Strings(es)
		for _, v := range vs {
			out = append(out, g+":v:"+v)
		}
		for _, e := range es {
			out = append(out, g+":e:"+e)
		}
	}
	return out
}

func c17kEq(a, b []string) bool {
	if len(a) != len(b) {
		return false
	}
	for i := range a {
		if a[i] != b[i] {
			return false
		}
	}
	return true
}

// VerifH_C17_kvgraph: every pair of driver calls, on the same or on different graphs.
func VerifH_C17_kvgraph() {
	K := vParam("CALLS", len(c17kCalls))
	a := vChoice("callA", K)
	b := vChoice("callB", K)
	vAssume(a <= b)
	ga := "g"
	gb := []string{"g", "h"}[vChoice("otherGraph", 2)]
	db := c17kSetup()
	var wg sync.WaitGroup
	wg.Add(2)
	go func() {
		defer wg.Done()
		c17kCall(db, a, ga, "x")
	}()
	go func() {
		defer wg.Done()
		c17kCall(db, b, gb, "y")
	}()
	wg.Wait()
	vReach("c17.kvgraph.both-returned")
	got := c17kObserve(db)
	s1 := c17kSetup()
	c17kCall(s1, a, ga, "x")
	c17kCall(s1, b, gb, "y")
	s2 := c17kSetup()
	c17kCall(s2, b, gb, "y")
	c17kCall(s2, a, ga, "x")
	vAssert("C17.kvgraph.state-of-a-sequential-order", c17kEq(got, c17kObserve(s1)) || c17kEq(got, c17kObserve(s2)))
	vAssert("C17.kvgraph.no-goroutine-left", vBlockedGoroutines() == 0)
}
