package PKG

// C17: the status of a job is updated by its spool goroutine while clients read it.

import (
	"github.com/bmeg/grip/gdbi"
	"github.com/bmeg/grip/gripql"
)

func init() {
	vHarnesses["VerifH_C17_jobstatus"] = VerifH_C17_jobstatus
}

// VerifH_C17_jobstatus: a client polls Status, List and Search of a job while the
// job's spool goroutine is still writing its rows.
func VerifH_C17_jobstatus() {
	base := c11Base()
	fs := NewFSJobStorage(base)
	n := vChoice("rows", vParam("ROWS", 3))
	in := make(chan gdbi.Traveler, n+1)
	for i := 0; i < n; i++ {
		in <- &gdbi.BaseTraveler{Count: uint32(i)}
	}
	close(in)
	id, err := fs.Spool("g", &Stream{Pipe: in, DataType: gdbi.CountData, Query: c11Stmts(1)})
	if err != nil {
		return
	}
	polls := 0
	type snap struct {
		st    *gripql.JobStatus
		count uint64
		state gripql.JobState
	}
	var snaps []snap
	for {
		st, err := fs.Status("g", id)
		vAssert("C17.jobstatus.status-available", err == nil && st != nil)
		if err != nil {
			return
		}
		vAssert("C17.jobstatus.count-within-bounds", st.Count <= uint64(n))
		// what the service hands to a client is read (serialised) outside any lock of the
		// storage, and it is a snapshot: it does not change once it has been returned
		c0, s0 := c17ReadStatusTracked(st)
		snaps = append(snaps, snap{st, c0, s0})
		ch, _ := fs.Search("g", c11Stmts(3))
		found := 0
		for js := range ch {
			c1, s1 := c17ReadStatusTracked(js)
			snaps = append(snaps, snap{js, c1, s1})
			found++
		}
		vAssert("C17.jobstatus.search-finds-job", found == 1)
		if st.State == gripql.JobState_COMPLETE {
			vAssert("C17.jobstatus.complete-count", st.Count == uint64(n))
			break
		}
		polls++
		if polls > 200 {
			vAssert("C17.jobstatus.completes", false)
			return
		}
		vYield()
	}
	vReach("c17.jobstatus.complete")
	for _, sn := range snaps {
		c, st := c17ReadStatusTracked(sn.st)
		vAssert("C17.jobstatus.returned-status-is-a-snapshot", c == sn.count && st == sn.state)
	}
}

// c17ReadStatusTracked stands for the gRPC layer serialising a returned status:
// its reads count for the race analysis (function name ends in Tracked).
func c17ReadStatusTracked(st *gripql.JobStatus) (uint64, gripql.JobState) {
	return st.Count, st.State
}
