package PKG

// C17: the status of a job is updated by its spool goroutine while clients read it.

import (
	"github.com/bmeg/grip/gdbi"
	"github.com/bmeg/grip/gripql"
)

func init() {
	vHarnesses["VerifH_C17_jobstatus"] = VerifH_C17_jobstatus
}

// VerifH_C17_jobstatus: a client polls Status, List and Search of a job while the
// job's spool goroutine is still writing its rows.
func VerifH_C17_jobstatus() {
	base := c11Base()
	fs := NewFSJobStorage(base)
	n := vChoice("rows", vParam("ROWS", 3))
	in := make(chan gdbi.Traveler, n+1)
	for i := 0; i < n; i++ {
		in <- &gdbi.BaseTraveler{Count: uint32(i)}
	}
	close(in)
	id, err := fs.Spool("g", &Stream{Pipe: in, DataType: gdbi.CountData, Query: c11Stmts(1)})
	if err != nil {
		return
	}
	polls := 0
	for {
		st, err := fs.Status("g", id)
		vAssert("C17.jobstatus.status-available", err == nil && st != nil)
		if err != nil {
			return
		}
		vAssert("C17.jobstatus.count-within-bounds", st.Count <= uint64(n))
		ch, _ := fs.Search("g", c11Stmts(3))
		for range ch {
		}
		if st.State == gripql.JobState_COMPLETE {
			vAssert("C17.jobstatus.complete-count", st.Count == uint64(n))
			break
		}
		polls++
		if polls > 200 {
			vAssert("C17.jobstatus.completes", false)
			return
		}
		vYield()
	}
	vReach("c17.jobstatus.complete")
}
