package PKG

// C17 (reduced): two client calls run concurrently against one GripServer value
// (the real handlers of server/api.go with getGraphDB, graphExists,
// updateGraphMap, addFullGraph). The graph database behind them is a stub that
// is internally synchronised, as every real store is, and records what it
// receives. Decided per pair of calls and per choice of target graphs:
//   - no data race on the server's own shared state (engine: happens-before
//     analysis of every load/store/map access of the executed code; natively:
//     the same harness under the Go race detector confirms every report),
//   - no panic, no deadlock,
//   - once both calls have returned, the stub holds the acknowledged edits and the
//     server lists the graphs of one of the two sequential orders.

import (
	"context"
	"errors"
	"sort"
	"sync"

	"github.com/bmeg/grip/config"
	"github.com/bmeg/grip/gdbi"
	"github.com/bmeg/grip/gripql"
)

func init() {
	vHarnesses["VerifH_C17_pairs"] = VerifH_C17_pairs
}

// ---- synchronised recording graph database ----

type c17DB struct {
	mu     sync.Mutex
	graphs []string
	got    []string
}

type c17Graph struct {
	gdbi.GraphInterface
	name string
	db   *c17DB
}

func (d *c17DB) record(s string) {
	d.mu.Lock()
	d.got = append(d.got, s)
	d.mu.Unlock()
}

func (g *c17Graph) AddVertex(vs []*gdbi.Vertex) error {
	for _, v := range vs {
		g.db.record(g.name + ":v:" + v.ID)
	}
	return nil
}
func (g *c17Graph) AddEdge(es []*gdbi.Edge) error {
	for _, e := range es {
		g.db.record(g.name + ":e:" + e.ID)
	}
	return nil
}
func (g *c17Graph) DelVertex(id string) error { g.db.record(g.name + ":dv:" + id); return nil }
func (g *c17Graph) DelEdge(id string) error   { g.db.record(g.name + ":de:" + id); return nil }
func (g *c17Graph) GetVertex(id string, load bool) *gdbi.Vertex {
	return &gdbi.Vertex{ID: id, Label: "L", Data: map[string]interface{}{}, Loaded: true}
}
func (g *c17Graph) GetTimestamp() string                { return "t" }
func (g *c17Graph) ListVertexLabels() ([]string, error) { return []string{"L"}, nil }
func (g *c17Graph) ListEdgeLabels() ([]string, error)   { return nil, nil }

func (d *c17DB) has(name string) bool {
	for _, g := range d.graphs {
		if g == name {
			return true
		}
	}
	return false
}
func (d *c17DB) AddGraph(name string) error {
	d.mu.Lock()
	defer d.mu.Unlock()
	if !d.has(name) {
		d.graphs = append(d.graphs, name)
	}
	return nil
}
func (d *c17DB) DeleteGraph(name string) error {
	d.mu.Lock()
	defer d.mu.Unlock()
	var keep []string
	for _, g := range d.graphs {
		if g != name {
			keep = append(keep, g)
		}
	}
	d.graphs = keep
	return nil
}
func (d *c17DB) ListGraphs() []string {
	d.mu.Lock()
	defer d.mu.Unlock()
	return append([]string{}, d.graphs...)
}
func (d *c17DB) Graph(id string) (gdbi.GraphInterface, error) {
	d.mu.Lock()
	defer d.mu.Unlock()
	if d.has(id) {
		return &c17Graph{name: id, db: d}, nil
	}
	return nil, errors.New("graph not found")
}
func (d *c17DB) BuildSchema(ctx context.Context, graphID string, sampleN uint32, random bool) (*gripql.Graph, error) {
	return &gripql.Graph{Graph: graphID}, nil
}
func (d *c17DB) Close() error { return nil }

func c17Server(db *c17DB) *GripServer {
	return &GripServer{
		dbs:      map[string]gdbi.GraphDB{"stub": db},
		graphMap: map[string]string{"g": "stub", "h": "stub"},
		conf:     &config.Config{Default: "stub", Graphs: map[string]string{}},
		schemas:  map[string]*gripql.Graph{},
	}
}

var c17Calls = []string{"AddVertex", "AddEdge", "DeleteVertex", "GetVertex", "ListGraphs", "GetTimestamp", "ListLabels", "AddGraph", "DeleteGraph", "GetSchema", "AddSchema"}

// c17Call performs one client call; id distinguishes the two clients' elements.
func c17Call(srv *GripServer, call int, graph, id string) error {
	ctx := context.Background()
	var err error
	switch c17Calls[call] {
	case "AddVertex":
		_, err = srv.AddVertex(ctx, &gripql.GraphElement{Graph: graph, Vertex: &gripql.Vertex{Gid: id, Label: "L"}})
	case "AddEdge":
		_, err = srv.AddEdge(ctx, &gripql.GraphElement{Graph: graph, Edge: &gripql.Edge{Gid: id, Label: "L", From: "a", To: "b"}})
	case "DeleteVertex":
		_, err = srv.DeleteVertex(ctx, &gripql.ElementID{Graph: graph, Id: id})
	case "GetVertex":
		_, err = srv.GetVertex(ctx, &gripql.ElementID{Graph: graph, Id: id})
	case "ListGraphs":
		_, err = srv.ListGraphs(ctx, &gripql.Empty{})
	case "GetTimestamp":
		_, err = srv.GetTimestamp(ctx, &gripql.GraphID{Graph: graph})
	case "ListLabels":
		_, err = srv.ListLabels(ctx, &gripql.GraphID{Graph: graph})
	case "AddGraph":
		_, err = srv.AddGraph(ctx, &gripql.GraphID{Graph: "n" + id})
	case "DeleteGraph":
		_, err = srv.DeleteGraph(ctx, &gripql.GraphID{Graph: graph})
	case "GetSchema":
		_, err = srv.GetSchema(ctx, &gripql.GraphID{Graph: graph})
	case "AddSchema":
		_, err = srv.AddSchema(ctx, &gripql.Graph{Graph: graph, Vertices: []*gripql.Vertex{{Gid: "L", Label: "L"}}})
	}
	return err
}

// c17Sequential: the recorded edits and the graph listing after running a then b on a fresh server.
func c17Sequential(a, b int, ga, gb string) ([]string, []string) {
	db := &c17DB{graphs: []string{"g", "h"}}
	srv := c17Server(db)
	c17Call(srv, a, ga, "x")
	c17Call(srv, b, gb, "y")
	got := append([]string{}, db.got...)
	sort.Strings(got)
	r, _ := srv.ListGraphs(context.Background(), &gripql.Empty{})
	gs := append([]string{}, r.Graphs...)
	sort.Strings(gs)
	return got, gs
}

func c17Eq(a, b []string) bool {
	if len(a) != len(b) {
		return false
	}
	for i := range a {
		if a[i] != b[i] {
			return false
		}
	}
	return true
}

// VerifH_C17_pairs: every pair of calls, on the same or on different graphs.
func VerifH_C17_pairs() {
	K := vParam("CALLS", len(c17Calls))
	a := vChoice("callA", K)
	b := vChoice("callB", K)
	vAssume(a <= b) // the two clients are interchangeable
	graphs := []string{"g", "h"}
	ga := graphs[0]
	gb := graphs[vChoice("sameGraph", 2)]
	db := &c17DB{graphs: []string{"g", "h"}}
	srv := c17Server(db)
	var wg sync.WaitGroup
	wg.Add(2)
	var errA, errB error
	go func() {
		defer wg.Done()
		errA = c17Call(srv, a, ga, "x")
	}()
	go func() {
		defer wg.Done()
		errB = c17Call(srv, b, gb, "y")
	}()
	wg.Wait()
	vReach("c17.both-returned")
	got := append([]string{}, db.got...)
	sort.Strings(got)
	r, _ := srv.ListGraphs(context.Background(), &gripql.Empty{})
	gs := append([]string{}, r.Graphs...)
	sort.Strings(gs)
	// the stored edits are those of both calls in one of the two orders (schema
	// uploads write a companion graph whose content depends on the order)
	g1, l1 := c17Sequential(a, b, ga, gb)
	g2, l2 := c17Sequential(b, a, gb, ga)
	if errA != nil || errB != nil {
		// a call that reported an error acknowledged nothing: only the absence of
		// crashes, deadlocks and races is required of it
		vReach("c17.a-call-failed")
	} else {
		vAssert("C17.pairs.edits-of-a-sequential-order", c17Eq(got, g1) || c17Eq(got, g2))
		vAssert("C17.pairs.graphs-of-a-sequential-order", c17Eq(gs, l1) || c17Eq(gs, l2))
	}
	vAssert("C17.pairs.no-goroutine-left", vBlockedGoroutines() == 0)
}
