package PKG

// C17: the error accumulator of util.StreamBatch is shared by the reader loop and
// the two batch-writer goroutines.

import (
	"errors"

	"github.com/bmeg/grip/gdbi"
)

func init() {
	vHarnesses["VerifH_C17_streambatch"] = VerifH_C17_streambatch
}

// VerifH_C17_streambatch: a stream whose elements fail in every place an error can
// arise (validation in the reader loop, the vertex writer, the edge writer), in
// every order: the call returns, reports an error iff something failed, and no two
// goroutines touch the accumulator unordered.
func VerifH_C17_streambatch() {
	n := 1 + vChoice("n", vParam("N", 3))
	in := make(chan *gdbi.GraphElement, n)
	failV := vChoice("vertexAddFails", 2) == 1
	failE := vChoice("edgeAddFails", 2) == 1
	anyInvalid := false
	for i := 0; i < n; i++ {
		id := "x" + string(rune('0'+i))
		switch vChoice("kind"+string(rune('0'+i)), 4) {
		case 0:
			in <- &gdbi.GraphElement{Graph: "g", Vertex: &gdbi.Vertex{ID: id, Label: "L"}}
		case 1:
			in <- &gdbi.GraphElement{Graph: "g", Vertex: &gdbi.Vertex{ID: id, Label: ""}} // refused by validation
			anyInvalid = true
		case 2:
			in <- &gdbi.GraphElement{Graph: "g", Edge: &gdbi.Edge{ID: id, Label: "L", From: "a", To: "b"}}
		default:
			in <- &gdbi.GraphElement{Graph: "other", Vertex: &gdbi.Vertex{ID: id, Label: "L"}} // wrong graph
			anyInvalid = true
		}
	}
	close(in)
	vCalls, eCalls := 0, 0
	err := StreamBatch(in, vParam("B", 2), "g",
		func(vs []*gdbi.Vertex) error {
			vCalls++
			c17ReadVerticesTracked(vs)
			if failV {
				return errors.New("vertex write failed")
			}
			return nil
		},
		func(es []*gdbi.Edge) error {
			eCalls++
			c17ReadEdgesTracked(es)
			if failE {
				return errors.New("edge write failed")
			}
			return nil
		})
	vReach("c17.streambatch.returned")
	failed := anyInvalid || (failV && vCalls > 0) || (failE && eCalls > 0)
	vAssert("C17.streambatch.error-iff-something-failed", (err != nil) == failed)
	vAssert("C17.streambatch.no-goroutine-left", vBlockedGoroutines() == 0)
}

// the back end reading the batch it was handed (its accesses are part of the race analysis)
func c17ReadVerticesTracked(vs []*gdbi.Vertex) int {
	n := 0
	for _, v := range vs {
		if v != nil {
			n++
		}
	}
	return n
}

func c17ReadEdgesTracked(es []*gdbi.Edge) int {
	n := 0
	for _, e := range es {
		if e != nil {
			n++
		}
	}
	return n
}
