package PKG

// C10: the LevelDB adapter over a contract stub of the part of the goleveldb API
// it uses (DB.Get/Put/Delete/Has/OpenTransaction/NewIterator, Transaction.Put/
// Delete/Has/Get/NewIterator/Commit/Discard, iterator.Iterator). Natively
// (replay) a real LevelDB directory is used.
//
// Contract modelled: Get of a missing key returns an error; a transaction buffers
// its writes, sees them in its own reads, applies them at Commit and drops them at
// Discard; iterators are created unpositioned, Seek(k) goes to the first key >= k
// and reports whether one exists, Next/Prev/First/Last report validity, Key/Value
// return nil while the iterator is not on an entry.

import (
	"errors"
	"os"

	"github.com/bmeg/grip/kvi"
	"github.com/syndtr/goleveldb/leveldb"
	"github.com/syndtr/goleveldb/leveldb/iterator"
	"github.com/syndtr/goleveldb/leveldb/opt"
	"github.com/syndtr/goleveldb/leveldb/util"
)

func init() {
	vHarnesses["VerifH_C10_level"] = VerifH_C10_level
	vHarnesses["VerifH_C10_level_volume"] = VerifH_C10_level_volume
}

var c10lDB = &c10Store{}
var c10lTxs = map[*leveldb.Transaction]*c10Store{}
var c10lErrNotFound = errors.New("leveldb: not found")

func c10lCopy(s *c10Store) *c10Store {
	v := &c10Store{}
	for i := range s.keys {
		v.set(s.keys[i], s.vals[i])
	}
	return v
}

type c10lIter struct {
	view *c10Store
	i    int
	pos  bool
}

func (it *c10lIter) Valid() bool { return it.pos && it.i >= 0 && it.i < len(it.view.keys) }
func (it *c10lIter) First() bool { it.pos, it.i = true, 0; return it.Valid() }
func (it *c10lIter) Last() bool  { it.pos, it.i = true, len(it.view.keys)-1; return it.Valid() }
func (it *c10lIter) Seek(key []byte) bool {
	it.pos = true
	it.i, _ = it.view.pos(key)
	return it.Valid()
}
func (it *c10lIter) Next() bool {
	if !it.pos {
		return it.First()
	}
	if it.i < len(it.view.keys) {
		it.i++
	}
	return it.Valid()
}
func (it *c10lIter) Prev() bool {
	if !it.pos {
		return it.Last()
	}
	if it.i >= 0 {
		it.i--
	}
	return it.Valid()
}
func (it *c10lIter) Key() []byte {
	if !it.Valid() {
		return nil
	}
	return it.view.keys[it.i]
}
func (it *c10lIter) Value() []byte {
	if !it.Valid() {
		return nil
	}
	return it.view.vals[it.i]
}
func (it *c10lIter) Release()                    {}
func (it *c10lIter) SetReleaser(r util.Releaser) {}
func (it *c10lIter) Error() error                { return nil }

func c10lGetFrom(v *c10Store, key []byte) ([]byte, error) {
	i, found := v.pos(key)
	if !found {
		return nil, c10lErrNotFound
	}
	return append([]byte{}, v.vals[i]...), nil
}

func c10lGet(db *leveldb.DB, key []byte, ro *opt.ReadOptions) ([]byte, error) {
	return c10lGetFrom(c10lDB, key)
}
func c10lHas(db *leveldb.DB, key []byte, ro *opt.ReadOptions) (bool, error) {
	_, found := c10lDB.pos(key)
	return found, nil
}
func c10lPut(db *leveldb.DB, key, value []byte, wo *opt.WriteOptions) error {
	c10lDB.set(key, value)
	return nil
}
func c10lDelete(db *leveldb.DB, key []byte, wo *opt.WriteOptions) error {
	c10lDB.del(key)
	return nil
}
func c10lNewIterator(db *leveldb.DB, slice *util.Range, ro *opt.ReadOptions) iterator.Iterator {
	return &c10lIter{view: c10lCopy(c10lDB)}
}
func c10lClose(db *leveldb.DB) error { return nil }
func c10lOpenTransaction(db *leveldb.DB) (*leveldb.Transaction, error) {
	tx := &leveldb.Transaction{}
	c10lTxs[tx] = c10lCopy(c10lDB)
	return tx, nil
}
func c10lTxPut(tx *leveldb.Transaction, key, value []byte, wo *opt.WriteOptions) error {
	c10lTxs[tx].set(key, value)
	return nil
}
func c10lTxDelete(tx *leveldb.Transaction, key []byte, wo *opt.WriteOptions) error {
	c10lTxs[tx].del(key)
	return nil
}
func c10lTxHas(tx *leveldb.Transaction, key []byte, ro *opt.ReadOptions) (bool, error) {
	_, found := c10lTxs[tx].pos(key)
	return found, nil
}
func c10lTxGet(tx *leveldb.Transaction, key []byte, ro *opt.ReadOptions) ([]byte, error) {
	return c10lGetFrom(c10lTxs[tx], key)
}
func c10lTxNewIterator(tx *leveldb.Transaction, slice *util.Range, ro *opt.ReadOptions) iterator.Iterator {
	return &c10lIter{view: c10lCopy(c10lTxs[tx])}
}
func c10lTxCommit(tx *leveldb.Transaction) error {
	if v := c10lTxs[tx]; v != nil {
		c10lDB = v
		c10lTxs[tx] = nil
	}
	return nil
}
func c10lTxDiscard(tx *leveldb.Transaction) { c10lTxs[tx] = nil }

func c10lOpen() kvi.KVInterface {
	if vSymbolic() {
		c10lDB = &c10Store{}
		return &LevelKV{db: nil} // every method of *leveldb.DB is redirected
	}
	dir, err := os.MkdirTemp("", "vcheck-level-")
	if err != nil {
		panic(err)
	}
	kv, err := NewKVInterface(dir, kvi.Options{})
	if err != nil {
		panic(err)
	}
	return kv
}

// VerifH_C10_level: after any short sequence of writes, every read of the adapter
// answers like the sorted-map model.
func VerifH_C10_level() {
	c10Run(c10lOpen(), "level")
}

// VerifH_C10_level_volume: DeletePrefix over key counts around its block size.
func VerifH_C10_level_volume() {
	c10Volume(c10lOpen(), "level")
}
