package PKG

// C10: the ordered-map store model that stands in for the embedded stores in the
// graph-level checks (C03, C04, C09, C16, C17) is itself run through the adapter
// driver, so that model and adapters are held to one specification.

func init() {
	vHarnesses["VerifH_C10_model"] = VerifH_C10_model
	vHarnesses["VerifH_C10_model_volume"] = VerifH_C10_model_volume
}

func VerifH_C10_model() {
	c10Run(vNewKV(), "model")
}

func VerifH_C10_model_volume() {
	c10Volume(vNewKV(), "model")
}
