package PKG

// C10: the Bolt adapter over a contract stub of the part of the Bolt API it uses
// (DB.View/Update, Tx.Bucket, Bucket.Get/Put/Delete/Cursor, Cursor.Seek/Next/Prev).
// Natively (replay) a real Bolt file in a temporary directory is used.
//
// Contract modelled: Update commits iff the callback returns nil and the
// transaction sees its own writes; Bucket.Get returns nil for a missing key and a
// non-nil (possibly empty) slice for a stored one; Cursor.Seek(k) goes to the first
// key >= k and returns nil past the end; Next/Prev return nil at the ends; Prev
// after a seek past the end lands on the last key.

import (
	"os"

	"github.com/bmeg/grip/kvi"
	"github.com/boltdb/bolt"
)

func init() {
	vHarnesses["VerifH_C10_bolt"] = VerifH_C10_bolt
	vHarnesses["VerifH_C10_bolt_volume"] = VerifH_C10_bolt_volume
}

type c10tTx struct{ view *c10Store }
type c10tCursor struct {
	view *c10Store
	i    int
}

var c10tDB = &c10Store{}
var c10tTxs = map[*bolt.Tx]*c10tTx{}
var c10tBuckets = map[*bolt.Bucket]*c10tTx{}
var c10tCursors = map[*bolt.Cursor]*c10tCursor{}

func c10tCopy(s *c10Store) *c10Store {
	v := &c10Store{}
	for i := range s.keys {
		v.set(s.keys[i], s.vals[i])
	}
	return v
}

func c10tUpdate(db *bolt.DB, fn func(tx *bolt.Tx) error) error {
	tx := &bolt.Tx{}
	st := &c10tTx{view: c10tCopy(c10tDB)}
	c10tTxs[tx] = st
	if err := fn(tx); err != nil {
		return err // rolled back
	}
	c10tDB = st.view
	return nil
}
func c10tView(db *bolt.DB, fn func(tx *bolt.Tx) error) error {
	tx := &bolt.Tx{}
	c10tTxs[tx] = &c10tTx{view: c10tCopy(c10tDB)}
	return fn(tx)
}
func c10tClose(db *bolt.DB) error { return nil }
func c10tBucket(tx *bolt.Tx, name []byte) *bolt.Bucket {
	b := &bolt.Bucket{}
	c10tBuckets[b] = c10tTxs[tx]
	return b
}
func c10tGet(b *bolt.Bucket, key []byte) []byte {
	v := c10tBuckets[b].view
	i, found := v.pos(key)
	if !found {
		return nil
	}
	return v.vals[i]
}
func c10tPut(b *bolt.Bucket, key, value []byte) error {
	c10tBuckets[b].view.set(key, value)
	return nil
}
func c10tDelete(b *bolt.Bucket, key []byte) error {
	c10tBuckets[b].view.del(key)
	return nil
}
func c10tCursorNew(b *bolt.Bucket) *bolt.Cursor {
	c := &bolt.Cursor{}
	c10tCursors[c] = &c10tCursor{view: c10tBuckets[b].view, i: -1}
	return c
}
func (c *c10tCursor) cur() ([]byte, []byte) {
	if c.i < 0 || c.i >= len(c.view.keys) {
		return nil, nil
	}
	return c.view.keys[c.i], c.view.vals[c.i]
}
func c10tSeek(c *bolt.Cursor, seek []byte) ([]byte, []byte) {
	st := c10tCursors[c]
	st.i, _ = st.view.pos(seek)
	return st.cur()
}
func c10tNext(c *bolt.Cursor) ([]byte, []byte) {
	st := c10tCursors[c]
	if st.i < len(st.view.keys) {
		st.i++
	}
	return st.cur()
}
func c10tLast(c *bolt.Cursor) ([]byte, []byte) {
	st := c10tCursors[c]
	st.i = len(st.view.keys) - 1
	return st.cur()
}
func c10tPrev(c *bolt.Cursor) ([]byte, []byte) {
	st := c10tCursors[c]
	if st.i >= 0 {
		st.i--
	}
	return st.cur()
}

func c10tOpen() kvi.KVInterface {
	if vSymbolic() {
		c10tDB = &c10Store{}
		return &BoltKV{db: nil} // every method of *bolt.DB is redirected
	}
	dir, err := os.MkdirTemp("", "vcheck-bolt-")
	if err != nil {
		panic(err)
	}
	kv, err := NewKVInterface(dir+"/bolt.db", kvi.Options{})
	if err != nil {
		panic(err)
	}
	return kv
}

// VerifH_C10_bolt: after any short sequence of writes, every read of the adapter
// answers like the sorted-map model.
func VerifH_C10_bolt() {
	c10Run(c10tOpen(), "bolt")
}

// VerifH_C10_bolt_volume: DeletePrefix over key counts around its block size.
func VerifH_C10_bolt_volume() {
	c10Volume(c10tOpen(), "bolt")
}
