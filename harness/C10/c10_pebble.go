package PKG

// C10 (reduced): the Pebble adapter over a contract stub of the part of the Pebble
// API it uses, compared with the ordered-map model. Under the engine the pebble.*
// calls are redirected to the c10* functions below; natively (replay) a real Pebble
// store in a temporary directory is used, which also validates the stub.

import (
	"bytes"
	"errors"
	"io"
	"os"

	"github.com/bmeg/grip/kvi"
	"github.com/cockroachdb/pebble"
)

func init() {
	vHarnesses["VerifH_C10_pebble"] = VerifH_C10_pebble
	vHarnesses["VerifH_C10_pebble_volume"] = VerifH_C10_pebble_volume
}

// ---- contract stub of pebble.DB / Iterator / Batch ----

type c10Iter struct {
	lower []byte
	i     int // -1: before the first key / unpositioned; len: exhausted
	pos   bool
}

type c10BatchOp struct{ k, v []byte }

var c10DB = &c10Store{}
var c10Iters = map[*pebble.Iterator]*c10Iter{}
var c10Batches = map[*pebble.Batch]*[]c10BatchOp{}

var c10ErrNotFound = errors.New("pebble: not found")

type c10Closer struct{}

func (c10Closer) Close() error { return nil }

// Get: a missing key yields ErrNotFound and a nil closer.
func c10Get(db *pebble.DB, key []byte) ([]byte, io.Closer, error) {
	i, found := c10DB.pos(key)
	if !found {
		return nil, nil, c10ErrNotFound
	}
	return c10DB.vals[i], c10Closer{}, nil
}
func c10Set(db *pebble.DB, key, value []byte, o *pebble.WriteOptions) error {
	c10DB.set(key, value)
	return nil
}
func c10Delete(db *pebble.DB, key []byte, o *pebble.WriteOptions) error {
	c10DB.del(key)
	return nil
}
// DeleteRange: every key k with start <= k < end.
func c10DeleteRange(db *pebble.DB, start, end []byte, o *pebble.WriteOptions) error {
	var ks, vs [][]byte
	for i := range c10DB.keys {
		if bytes.Compare(c10DB.keys[i], start) >= 0 && bytes.Compare(c10DB.keys[i], end) < 0 {
			continue
		}
		ks, vs = append(ks, c10DB.keys[i]), append(vs, c10DB.vals[i])
	}
	c10DB.keys, c10DB.vals = ks, vs
	return nil
}
func c10Compact(db *pebble.DB, start, end []byte, parallelize bool) error { return nil }
func c10Close(db *pebble.DB) error                                        { return nil }

// NewIter: the iterator is not positioned until First/Last/Seek* is called.
func c10NewIter(db *pebble.DB, o *pebble.IterOptions) *pebble.Iterator {
	it := &pebble.Iterator{}
	st := &c10Iter{i: -1}
	if o != nil {
		st.lower = o.LowerBound
	}
	c10Iters[it] = st
	return it
}
func c10IterValid(it *pebble.Iterator) bool {
	st := c10Iters[it]
	return st.pos && st.i >= 0 && st.i < len(c10DB.keys)
}
func c10IterKey(it *pebble.Iterator) []byte {
	if !c10IterValid(it) {
		return nil
	}
	return c10DB.keys[c10Iters[it].i]
}
func c10IterValue(it *pebble.Iterator) []byte {
	if !c10IterValid(it) {
		return nil
	}
	return c10DB.vals[c10Iters[it].i]
}
func c10IterFirstIdx(st *c10Iter) int {
	if st.lower == nil {
		return 0
	}
	p, _ := c10DB.pos(st.lower)
	return p
}
func c10IterNext(it *pebble.Iterator) bool {
	st := c10Iters[it]
	if !st.pos {
		st.pos = true
		st.i = c10IterFirstIdx(st) // Next on a fresh iterator behaves like First
	} else if st.i < len(c10DB.keys) {
		st.i++
	}
	return c10IterValid(it)
}
func c10IterPrev(it *pebble.Iterator) bool {
	st := c10Iters[it]
	if !st.pos {
		st.pos = true
		st.i = len(c10DB.keys) - 1 // Prev on a fresh iterator behaves like Last
	} else if st.i >= 0 {
		st.i--
		if st.i >= 0 && st.lower != nil && bytes.Compare(c10DB.keys[st.i], st.lower) < 0 {
			st.i = -1
		}
	}
	return c10IterValid(it)
}
func c10IterSeekGE(it *pebble.Iterator, key []byte) bool {
	st := c10Iters[it]
	st.pos = true
	if st.lower != nil && bytes.Compare(key, st.lower) < 0 {
		key = st.lower
	}
	st.i, _ = c10DB.pos(key)
	return c10IterValid(it)
}
func c10IterFirst(it *pebble.Iterator) bool {
	st := c10Iters[it]
	st.pos = true
	st.i = c10IterFirstIdx(st)
	return c10IterValid(it)
}
func c10IterLast(it *pebble.Iterator) bool {
	st := c10Iters[it]
	st.pos = true
	st.i = len(c10DB.keys) - 1
	if st.i >= 0 && st.lower != nil && bytes.Compare(c10DB.keys[st.i], st.lower) < 0 {
		st.i = -1
	}
	return c10IterValid(it)
}
func c10IterClose(it *pebble.Iterator) error { return nil }

func c10NewBatch(db *pebble.DB) *pebble.Batch {
	b := &pebble.Batch{}
	c10Batches[b] = &[]c10BatchOp{}
	return b
}
func c10BatchSet(b *pebble.Batch, key, value []byte, o *pebble.WriteOptions) error {
	ops := c10Batches[b]
	*ops = append(*ops, c10BatchOp{append([]byte{}, key...), append([]byte{}, value...)})
	return nil
}
func c10BatchCommit(b *pebble.Batch, o *pebble.WriteOptions) error {
	for _, op := range *c10Batches[b] {
		c10DB.set(op.k, op.v)
	}
	*c10Batches[b] = nil
	return nil
}
func c10BatchReset(b *pebble.Batch)       { *c10Batches[b] = nil }
func c10BatchClose(b *pebble.Batch) error { return nil }

// ---- the harness ----

func c10Open() kvi.KVInterface {
	if vSymbolic() {
		c10DB = &c10Store{}
		return &PebbleKV{db: nil} // every method of *pebble.DB is redirected; the receiver is never dereferenced
	}
	dir, err := os.MkdirTemp("", "vcheck-pebble-")
	if err != nil {
		panic(err)
	}
	kv, err := NewKVInterface(dir, kvi.Options{})
	if err != nil {
		panic(err)
	}
	return kv
}

// VerifH_C10_pebble: after any short sequence of writes, every read of the adapter
// answers like the sorted-map model.
func VerifH_C10_pebble() {
	c10Run(c10Open(), "pebble")
}

// VerifH_C10_pebble_volume: DeletePrefix over key counts around its block size.
func VerifH_C10_pebble_volume() {
	c10Volume(c10Open(), "pebble")
}
