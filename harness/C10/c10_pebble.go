package PKG

// C10 (reduced): the Pebble adapter over a contract stub of the part of the Pebble
// API it uses, compared with the ordered-map model. Under the engine the pebble.*
// calls are redirected to the c10* functions below; natively (replay) a real Pebble
// store in a temporary directory is used, which also validates the stub.

import (
	"bytes"
	"errors"
	"io"
	"os"

	"github.com/bmeg/grip/kvi"
	"github.com/cockroachdb/pebble"
)

func init() {
	vHarnesses["VerifH_C10_pebble"] = VerifH_C10_pebble
}

// ---- contract stub of pebble.DB / Iterator / Batch ----

type c10Store struct {
	keys [][]byte
	vals [][]byte
}

func (s *c10Store) pos(k []byte) (int, bool) {
	for i := range s.keys {
		c := bytes.Compare(s.keys[i], k)
		if c == 0 {
			return i, true
		}
		if c > 0 {
			return i, false
		}
	}
	return len(s.keys), false
}

func (s *c10Store) set(k, v []byte) {
	i, found := s.pos(k)
	if found {
		s.vals[i] = append([]byte{}, v...)
		return
	}
	s.keys = append(s.keys, nil)
	s.vals = append(s.vals, nil)
	copy(s.keys[i+1:], s.keys[i:])
	copy(s.vals[i+1:], s.vals[i:])
	s.keys[i] = append([]byte{}, k...)
	s.vals[i] = append([]byte{}, v...)
}

func (s *c10Store) del(k []byte) {
	i, found := s.pos(k)
	if found {
		s.keys = append(s.keys[:i], s.keys[i+1:]...)
		s.vals = append(s.vals[:i], s.vals[i+1:]...)
	}
}

type c10Iter struct {
	lower []byte
	i     int // -1: before the first key / unpositioned; len: exhausted
	pos   bool
}

type c10BatchOp struct{ k, v []byte }

var c10DB = &c10Store{}
var c10Iters = map[*pebble.Iterator]*c10Iter{}
var c10Batches = map[*pebble.Batch]*[]c10BatchOp{}

var c10ErrNotFound = errors.New("pebble: not found")

type c10Closer struct{}

func (c10Closer) Close() error { return nil }

// Get: a missing key yields ErrNotFound and a nil closer.
func c10Get(db *pebble.DB, key []byte) ([]byte, io.Closer, error) {
	i, found := c10DB.pos(key)
	if !found {
		return nil, nil, c10ErrNotFound
	}
	return c10DB.vals[i], c10Closer{}, nil
}
func c10Set(db *pebble.DB, key, value []byte, o *pebble.WriteOptions) error {
	c10DB.set(key, value)
	return nil
}
func c10Delete(db *pebble.DB, key []byte, o *pebble.WriteOptions) error {
	c10DB.del(key)
	return nil
}
func c10Compact(db *pebble.DB, start, end []byte, parallelize bool) error { return nil }
func c10Close(db *pebble.DB) error                                        { return nil }

// NewIter: the iterator is not positioned until First/Last/Seek* is called.
func c10NewIter(db *pebble.DB, o *pebble.IterOptions) *pebble.Iterator {
	it := &pebble.Iterator{}
	st := &c10Iter{i: -1}
	if o != nil {
		st.lower = o.LowerBound
	}
	c10Iters[it] = st
	return it
}
func c10IterValid(it *pebble.Iterator) bool {
	st := c10Iters[it]
	return st.pos && st.i >= 0 && st.i < len(c10DB.keys)
}
func c10IterKey(it *pebble.Iterator) []byte {
	if !c10IterValid(it) {
		return nil
	}
	return c10DB.keys[c10Iters[it].i]
}
func c10IterValue(it *pebble.Iterator) []byte {
	if !c10IterValid(it) {
		return nil
	}
	return c10DB.vals[c10Iters[it].i]
}
func c10IterFirstIdx(st *c10Iter) int {
	if st.lower == nil {
		return 0
	}
	p, _ := c10DB.pos(st.lower)
	return p
}
func c10IterNext(it *pebble.Iterator) bool {
	st := c10Iters[it]
	if !st.pos {
		st.pos = true
		st.i = c10IterFirstIdx(st) // Next on a fresh iterator behaves like First
	} else if st.i < len(c10DB.keys) {
		st.i++
	}
	return c10IterValid(it)
}
func c10IterPrev(it *pebble.Iterator) bool {
	st := c10Iters[it]
	if !st.pos {
		st.pos = true
		st.i = len(c10DB.keys) - 1 // Prev on a fresh iterator behaves like Last
	} else if st.i >= 0 {
		st.i--
		if st.i >= 0 && st.lower != nil && bytes.Compare(c10DB.keys[st.i], st.lower) < 0 {
			st.i = -1
		}
	}
	return c10IterValid(it)
}
func c10IterSeekGE(it *pebble.Iterator, key []byte) bool {
	st := c10Iters[it]
	st.pos = true
	if st.lower != nil && bytes.Compare(key, st.lower) < 0 {
		key = st.lower
	}
	st.i, _ = c10DB.pos(key)
	return c10IterValid(it)
}
func c10IterFirst(it *pebble.Iterator) bool {
	st := c10Iters[it]
	st.pos = true
	st.i = c10IterFirstIdx(st)
	return c10IterValid(it)
}
func c10IterLast(it *pebble.Iterator) bool {
	st := c10Iters[it]
	st.pos = true
	st.i = len(c10DB.keys) - 1
	if st.i >= 0 && st.lower != nil && bytes.Compare(c10DB.keys[st.i], st.lower) < 0 {
		st.i = -1
	}
	return c10IterValid(it)
}
func c10IterClose(it *pebble.Iterator) error { return nil }

func c10NewBatch(db *pebble.DB) *pebble.Batch {
	b := &pebble.Batch{}
	c10Batches[b] = &[]c10BatchOp{}
	return b
}
func c10BatchSet(b *pebble.Batch, key, value []byte, o *pebble.WriteOptions) error {
	ops := c10Batches[b]
	*ops = append(*ops, c10BatchOp{append([]byte{}, key...), append([]byte{}, value...)})
	return nil
}
func c10BatchCommit(b *pebble.Batch, o *pebble.WriteOptions) error {
	for _, op := range *c10Batches[b] {
		c10DB.set(op.k, op.v)
	}
	*c10Batches[b] = nil
	return nil
}
func c10BatchReset(b *pebble.Batch)       { *c10Batches[b] = nil }
func c10BatchClose(b *pebble.Batch) error { return nil }

// ---- the harness ----

func c10Open() kvi.KVInterface {
	if vSymbolic() {
		c10DB = &c10Store{}
		return &PebbleKV{db: nil} // every method of *pebble.DB is redirected; the receiver is never dereferenced
	}
	dir, err := os.MkdirTemp("", "vcheck-pebble-")
	if err != nil {
		panic(err)
	}
	kv, err := NewKVInterface(dir, kvi.Options{})
	if err != nil {
		panic(err)
	}
	return kv
}

var c10Keys = []string{"a", "ab", "b", "\x00", "ba", "\xff"}

func c10Key(name string) []byte { return []byte(c10Keys[vChoice(name, vParam("NK", 4))]) }

type c10Model struct {
	keys [][]byte
	vals [][]byte
}

func (m *c10Model) store() *c10Store { return &c10Store{keys: m.keys, vals: m.vals} }

// VerifH_C10_pebble: after any short sequence of writes, every read of the adapter
// answers like the sorted-map model.
func VerifH_C10_pebble() {
	D := vParam("D", 2)
	kv := c10Open()
	model := &c10Store{}
	for s := 0; s < D; s++ {
		name := "w" + string(rune('0'+s))
		switch vChoice(name+".op", 5) {
		case 0:
			k, v := c10Key(name+".k"), []byte{vNondetByte(name + ".v")}
			vAssert("C10.pebble.set-ok", kv.Set(k, v) == nil)
			model.set(k, v)
		case 1:
			k := c10Key(name + ".k")
			vAssert("C10.pebble.delete-ok", kv.Delete(k) == nil)
			model.del(k)
		case 2:
			p := c10Key(name + ".p")
			vKnownFor("C10/pebble-deleteprefix-noop", true, "C10.pebble.get,C10.pebble.haskey,C10.pebble.scan,C10.pebble.seek,C10.pebble.seekreverse")
			vAssert("C10.pebble.deleteprefix-ok", kv.DeletePrefix(p) == nil)
			var ks, vs [][]byte
			for i := range model.keys {
				if !bytes.HasPrefix(model.keys[i], p) {
					ks, vs = append(ks, model.keys[i]), append(vs, model.vals[i])
				}
			}
			model.keys, model.vals = ks, vs
		case 3: // bulk write of two keys; the callback may fail: then nothing is written
			k1, k2 := c10Key(name+".k1"), c10Key(name+".k2")
			fail := vChoice(name+".fail", 2) == 1
			vKnownFor("C10/pebble-bulkwrite-commits-on-error", fail, "C10.pebble.get,C10.pebble.haskey,C10.pebble.scan,C10.pebble.seek,C10.pebble.seekreverse")
			err := kv.BulkWrite(func(bl kvi.KVBulkWrite) error {
				bl.Set(k1, []byte{1})
				bl.Set(k2, []byte{2})
				if fail {
					return errors.New("callback failed")
				}
				return nil
			})
			vAssert("C10.pebble.bulkwrite-error-passed-on", (err != nil) == fail)
			if !fail {
				model.set(k1, []byte{1})
				model.set(k2, []byte{2})
			}
		default: // transactional update: set then delete
			k1, k2 := c10Key(name+".k1"), c10Key(name+".k2")
			err := kv.Update(func(tx kvi.KVTransaction) error {
				tx.Set(k1, []byte{7})
				tx.Delete(k2)
				return nil
			})
			vAssert("C10.pebble.update-ok", err == nil)
			model.set(k1, []byte{7})
			model.del(k2)
		}
	}
	// reads
	probe := c10Key("probe")
	mi, mfound := model.pos(probe)
	switch vChoice("read", 5) {
	case 0:
		v, err := kv.Get(probe)
		vAssert("C10.pebble.get", (err == nil) == mfound && (!mfound || bytes.Equal(v, model.vals[mi])))
	case 1:
		vKnownFor("C10/pebble-haskey-missing-key-panics", !mfound, "")
		vAssert("C10.pebble.haskey", kv.HasKey(probe) == mfound)
	case 2: // full forward scan from the probe
		var got [][]byte
		kv.View(func(it kvi.KVIterator) error {
			for it.Seek(probe); it.Valid(); it.Next() {
				got = append(got, it.Key())
			}
			return nil
		})
		want := model.keys[mi:]
		ok := len(got) == len(want)
		for i := range got {
			if i < len(want) && !bytes.Equal(got[i], want[i]) {
				ok = false
			}
		}
		vAssert("C10.pebble.scan", ok)
	case 3:
		kv.View(func(it kvi.KVIterator) error {
			it.Seek(probe)
			vAssert("C10.pebble.seek", it.Valid() == (mi < len(model.keys)) && (!it.Valid() || bytes.Equal(it.Key(), model.keys[mi])))
			return nil
		})
	default: // largest key <= probe
		want := mi
		if !mfound {
			want = mi - 1
		}
		vKnownFor("C10/pebble-seekreverse-past-last-key", mi >= len(model.keys), "C10.pebble.seekreverse")
		kv.View(func(it kvi.KVIterator) error {
			it.SeekReverse(probe)
			vAssert("C10.pebble.seekreverse", it.Valid() == (want >= 0) && (!it.Valid() || bytes.Equal(it.Key(), model.keys[want])))
			return nil
		})
	}
	vReach("c10.pebble.read")
}
