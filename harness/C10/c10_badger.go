package PKG

// C10: the Badger adapter (the default store) over a contract stub of the part of
// the Badger v2 API it uses. Under the engine the badger.* calls are redirected to
// the c10b* functions below; natively (replay) a real Badger store in a temporary
// directory is used, which also validates the stub.
//
// Contract modelled: DB.Update commits the transaction's writes iff the callback
// returns nil; reads and iterators of a transaction see its own pending writes;
// Txn.Get of a missing key returns an error; iterators are created unpositioned,
// Seek(k) goes to the first key >= k (forward) or the last key <= k (reverse);
// a WriteBatch applies its writes at Flush and drops them at Cancel.

import (
	"bytes"
	"errors"
	"os"

	"github.com/bmeg/grip/kvi"
	"github.com/dgraph-io/badger/v2"
)

func init() {
	vHarnesses["VerifH_C10_badger"] = VerifH_C10_badger
	vHarnesses["VerifH_C10_badger_volume"] = VerifH_C10_badger_volume
}

type c10bWrite struct {
	k, v []byte
	del  bool
}

type c10bTxn struct {
	pending []c10bWrite
}

type c10bIter struct {
	view    *c10Store
	reverse bool
	i       int
	pos     bool
}

type c10bItem struct{ k, v []byte }

var c10bDB = &c10Store{}
var c10bTxns = map[*badger.Txn]*c10bTxn{}
var c10bIters = map[*badger.Iterator]*c10bIter{}
var c10bItems = map[*badger.Item]*c10bItem{}
var c10bBatches = map[*badger.WriteBatch]*[]c10bWrite{}
var c10bErrNotFound = errors.New("Key not found")

// the transaction's view: the store plus its pending writes
func (t *c10bTxn) view() *c10Store {
	v := &c10Store{}
	for i := range c10bDB.keys {
		v.set(c10bDB.keys[i], c10bDB.vals[i])
	}
	for _, w := range t.pending {
		if w.del {
			v.del(w.k)
		} else {
			v.set(w.k, w.v)
		}
	}
	return v
}

func c10bApply(ws []c10bWrite) {
	for _, w := range ws {
		if w.del {
			c10bDB.del(w.k)
		} else {
			c10bDB.set(w.k, w.v)
		}
	}
}

func c10bUpdate(db *badger.DB, fn func(txn *badger.Txn) error) error {
	txn := &badger.Txn{}
	st := &c10bTxn{}
	c10bTxns[txn] = st
	if err := fn(txn); err != nil {
		return err // discarded
	}
	c10bApply(st.pending)
	return nil
}
func c10bView(db *badger.DB, fn func(txn *badger.Txn) error) error {
	txn := &badger.Txn{}
	c10bTxns[txn] = &c10bTxn{}
	return fn(txn)
}
func c10bClose(db *badger.DB) error { return nil }

func c10bTxnGet(txn *badger.Txn, key []byte) (*badger.Item, error) {
	v := c10bTxns[txn].view()
	i, found := v.pos(key)
	if !found {
		return nil, c10bErrNotFound
	}
	it := &badger.Item{}
	c10bItems[it] = &c10bItem{v.keys[i], v.vals[i]}
	return it, nil
}
func c10bTxnSet(txn *badger.Txn, key, val []byte) error {
	st := c10bTxns[txn]
	st.pending = append(st.pending, c10bWrite{k: append([]byte{}, key...), v: append([]byte{}, val...)})
	return nil
}
func c10bTxnDelete(txn *badger.Txn, key []byte) error {
	st := c10bTxns[txn]
	st.pending = append(st.pending, c10bWrite{k: append([]byte{}, key...), del: true})
	return nil
}
func c10bTxnNewIterator(txn *badger.Txn, opt badger.IteratorOptions) *badger.Iterator {
	it := &badger.Iterator{}
	c10bIters[it] = &c10bIter{view: c10bTxns[txn].view(), reverse: opt.Reverse}
	return it
}

func c10bItemValue(item *badger.Item, fn func(val []byte) error) error {
	return fn(c10bItems[item].v)
}
func c10bItemKey(item *badger.Item) []byte { return c10bItems[item].k }

func c10bIterSeek(it *badger.Iterator, key []byte) {
	st := c10bIters[it]
	st.pos = true
	i, found := st.view.pos(key)
	if st.reverse && !found {
		i--
	}
	st.i = i
}
func c10bIterValid(it *badger.Iterator) bool {
	st := c10bIters[it]
	return st.pos && st.i >= 0 && st.i < len(st.view.keys)
}
func c10bIterNext(it *badger.Iterator) {
	st := c10bIters[it]
	if st.reverse {
		st.i--
	} else {
		st.i++
	}
}
func c10bIterItem(it *badger.Iterator) *badger.Item {
	st := c10bIters[it]
	item := &badger.Item{}
	c10bItems[item] = &c10bItem{st.view.keys[st.i], st.view.vals[st.i]}
	return item
}
func c10bIterClose(it *badger.Iterator) {}

func c10bNewWriteBatch(db *badger.DB) *badger.WriteBatch {
	wb := &badger.WriteBatch{}
	c10bBatches[wb] = &[]c10bWrite{}
	return wb
}
func c10bBatchSet(wb *badger.WriteBatch, k, v []byte) error {
	ws := c10bBatches[wb]
	*ws = append(*ws, c10bWrite{k: append([]byte{}, k...), v: append([]byte{}, v...)})
	return nil
}
func c10bBatchFlush(wb *badger.WriteBatch) error {
	c10bApply(*c10bBatches[wb])
	*c10bBatches[wb] = nil
	return nil
}
func c10bBatchCancel(wb *badger.WriteBatch) { *c10bBatches[wb] = nil }

var _ = bytes.Equal

func c10bOpen() kvi.KVInterface {
	if vSymbolic() {
		c10bDB = &c10Store{}
		return &BadgerKV{db: nil} // every method of *badger.DB is redirected
	}
	dir, err := os.MkdirTemp("", "vcheck-badger-")
	if err != nil {
		panic(err)
	}
	kv, err := NewKVInterface(dir, kvi.Options{})
	if err != nil {
		panic(err)
	}
	return kv
}

// VerifH_C10_badger: after any short sequence of writes, every read of the adapter
// answers like the sorted-map model.
func VerifH_C10_badger() {
	c10Run(c10bOpen(), "badger")
}

// VerifH_C10_badger_volume: DeletePrefix over key counts around its block size.
func VerifH_C10_badger_volume() {
	c10Volume(c10bOpen(), "badger")
}
