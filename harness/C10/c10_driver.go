package PKG

// C10: the driver shared by the adapter harnesses: a short symbolic sequence of
// writes through the kvi interface, then one read, compared with the sorted-map
// model every driver is specified against.

import (
	"bytes"
	"errors"

	"github.com/bmeg/grip/kvi"
)

type c10Store struct {
	keys [][]byte
	vals [][]byte
}

func (s *c10Store) pos(k []byte) (int, bool) {
	for i := range s.keys {
		c := bytes.Compare(s.keys[i], k)
		if c == 0 {
			return i, true
		}
		if c > 0 {
			return i, false
		}
	}
	return len(s.keys), false
}

func (s *c10Store) set(k, v []byte) {
	i, found := s.pos(k)
	if found {
		s.vals[i] = append([]byte{}, v...)
		return
	}
	s.keys = append(s.keys, nil)
	s.vals = append(s.vals, nil)
	copy(s.keys[i+1:], s.keys[i:])
	copy(s.vals[i+1:], s.vals[i:])
	s.keys[i] = append([]byte{}, k...)
	s.vals[i] = append([]byte{}, v...)
}

func (s *c10Store) del(k []byte) {
	i, found := s.pos(k)
	if found {
		s.keys = append(s.keys[:i], s.keys[i+1:]...)
		s.vals = append(s.vals[:i], s.vals[i+1:]...)
	}
}

var c10Keys = []string{"a", "ab", "\x00", "b", "\xff", "ba"}

func c10Key(name string) []byte { return []byte(c10Keys[vChoice(name, vParam("NK", 4))]) }

// c10Key2: a second key of an operation: any key (SLIM=0) or, in the quick tier,
// the key after the first one in the universe (so equal keys are left to SLIM=0).
func c10Key2(name string, first []byte) []byte {
	if vParam("SLIM", 0) == 0 {
		return c10Key(name)
	}
	nk := vParam("NK", 4)
	for i := 0; i < nk; i++ {
		if c10Keys[i] == string(first) {
			return []byte(c10Keys[(i+1)%nk])
		}
	}
	return first
}

func c10Run(kv kvi.KVInterface, tag string) {
	D := vParam("D", 2)
	id := func(s string) string { return "C10." + tag + "." + s }
	model := &c10Store{}
	readIDs := ""
	for _, r := range []string{"get", "haskey", "scan", "seek", "seekreverse", "seek-twice", "iterator-get", "tx-get", "tx-haskey", "forward-scan-after-reverse-seek", "reverse-scan-after-forward-seek"} {
		readIDs += id(r) + ","
	}
	for s := 0; s < D; s++ {
		name := "w" + string(rune('0'+s))
		switch vChoice(name+".op", 6) {
		case 0:
			// an arbitrary one-byte value, or the empty value
			k, v := c10Key(name+".k"), []byte{vNondetByte(name + ".v")}
			if vChoice(name+".empty", 2) == 1 {
				v = []byte{}
			}
			vAssert(id("set-ok"), kv.Set(k, v) == nil)
			model.set(k, v)
		case 1:
			k := c10Key(name + ".k")
			vAssert(id("delete-ok"), kv.Delete(k) == nil)
			model.del(k)
		case 2:
			// a key of the universe, or any two-byte prefix (all 65536 values: prefixes
			// ending in 0xff, prefixes just below or above a stored key, ...)
			var p []byte
			if pc := vChoice(name+".p", vParam("NK", 4)+1); pc < vParam("NK", 4) {
				p = []byte(c10Keys[pc])
			} else {
				p = []byte{vNondetByte(name + ".p0"), vNondetByte(name + ".p1")}
			}
			vAssert(id("deleteprefix-ok"), kv.DeletePrefix(p) == nil)
			var ks, vs [][]byte
			for i := range model.keys {
				if !bytes.HasPrefix(model.keys[i], p) {
					ks, vs = append(ks, model.keys[i]), append(vs, model.vals[i])
				}
			}
			model.keys, model.vals = ks, vs
		case 3: // bulk write of two keys; the callback may fail: then nothing is written
			k1 := c10Key(name + ".k1")
			k2 := c10Key2(name+".k2", k1)
			fail := vChoice(name+".fail", 2) == 1
			err := kv.BulkWrite(func(bl kvi.KVBulkWrite) error {
				bl.Set(k1, []byte{1})
				bl.Set(k2, []byte{2})
				if fail {
					return errors.New("callback failed")
				}
				return nil
			})
			vAssert(id("bulkwrite-error-passed-on"), (err != nil) == fail)
			if !fail {
				model.set(k1, []byte{1})
				model.set(k2, []byte{2})
			}
		case 4: // transactional update: set then delete
			k1 := c10Key(name + ".k1")
			k2 := c10Key2(name+".k2", k1)
			err := kv.Update(func(tx kvi.KVTransaction) error {
				tx.Set(k1, []byte{7})
				tx.Delete(k2)
				return nil
			})
			vAssert(id("update-ok"), err == nil)
			model.set(k1, []byte{7})
			model.del(k2)
		default: // transactional update whose callback fails after a write: the error is passed on
			k1 := c10Key(name + ".k1")
			err := kv.Update(func(tx kvi.KVTransaction) error {
				tx.Set(k1, []byte{9})
				return errors.New("callback failed")
			})
			vAssert(id("update-error-passed-on"), err != nil)
			// a failed transaction writes nothing (Badger and Bolt roll back); a driver
			// that applies transaction writes immediately is a listed finding
			vKnownFor("C10/"+tag+"-update-not-transactional", true, readIDs)
		}
	}
	// reads
	probe := c10Key("probe")
	mi, mfound := model.pos(probe)
	switch vChoice("read", 10) {
	case 0:
		v, err := kv.Get(probe)
		vAssert(id("get"), (err == nil) == mfound && (!mfound || bytes.Equal(v, model.vals[mi])))
	case 1:
		vAssert(id("haskey"), kv.HasKey(probe) == mfound)
	case 2: // full forward scan from the probe, keys and values
		var got, gotV [][]byte
		kv.View(func(it kvi.KVIterator) error {
			for it.Seek(probe); it.Valid(); it.Next() {
				got = append(got, it.Key())
				v, _ := it.Value()
				gotV = append(gotV, v)
			}
			return nil
		})
		want := model.keys[mi:]
		ok := len(got) == len(want)
		for i := range got {
			if i < len(want) && (!bytes.Equal(got[i], want[i]) || !bytes.Equal(gotV[i], model.vals[mi+i])) {
				ok = false
			}
		}
		vAssert(id("scan"), ok)
	case 3:
		kv.View(func(it kvi.KVIterator) error {
			it.Seek(probe)
			vAssert(id("seek"), it.Valid() == (mi < len(model.keys)) && (!it.Valid() || bytes.Equal(it.Key(), model.keys[mi])))
			return nil
		})
	case 4: // largest key <= probe
		want := mi
		if !mfound {
			want = mi - 1
		}
		kv.View(func(it kvi.KVIterator) error {
			it.SeekReverse(probe)
			vAssert(id("seekreverse"), it.Valid() == (want >= 0) && (!it.Valid() || bytes.Equal(it.Key(), model.keys[want])))
			return nil
		})
	case 5: // a second seek on the same iterator: a miss after a hit leaves nothing behind
		first := c10Key2("first", probe)
		kv.View(func(it kvi.KVIterator) error {
			it.Seek(first)
			it.Seek(probe)
			vAssert(id("seek-twice"), it.Valid() == (mi < len(model.keys)) && (!it.Valid() || bytes.Equal(it.Key(), model.keys[mi])))
			return nil
		})
	case 6: // reads through the iterator's Get
		kv.View(func(it kvi.KVIterator) error {
			v, err := it.Get(probe)
			vAssert(id("iterator-get"), (err == nil) == mfound && (!mfound || bytes.Equal(v, model.vals[mi])))
			return nil
		})
	case 7: // direction changes on one iterator: a reverse seek, then a forward scan
		first := c10Key2("first", probe)
		var got [][]byte
		kv.View(func(it kvi.KVIterator) error {
			it.SeekReverse(first)
			for it.Seek(probe); it.Valid(); it.Next() {
				got = append(got, it.Key())
			}
			return nil
		})
		want := model.keys[mi:]
		ok := len(got) == len(want)
		for i := range got {
			if i < len(want) && !bytes.Equal(got[i], want[i]) {
				ok = false
			}
		}
		vAssert(id("forward-scan-after-reverse-seek"), ok)
	case 8: // ... and a forward seek, then a reverse scan (Next after SeekReverse steps backwards)
		first := c10Key2("first", probe)
		var got [][]byte
		kv.View(func(it kvi.KVIterator) error {
			it.Seek(first)
			for it.SeekReverse(probe); it.Valid(); it.Next() {
				got = append(got, it.Key())
			}
			return nil
		})
		last := mi
		if !mfound {
			last = mi - 1
		}
		ok := len(got) == last+1
		for i := range got {
			if last-i >= 0 && !bytes.Equal(got[i], model.keys[last-i]) {
				ok = false
			}
		}
		vAssert(id("reverse-scan-after-forward-seek"), ok)
	default: // reads inside a transaction see the stored state
		kv.Update(func(tx kvi.KVTransaction) error {
			v, err := tx.Get(probe)
			vAssert(id("tx-get"), (err == nil) == mfound && (!mfound || bytes.Equal(v, model.vals[mi])))
			vAssert(id("tx-haskey"), tx.HasKey(probe) == mfound)
			return nil
		})
	}
	vReach("c10." + tag + ".read")
}

// c10Volume: DeletePrefix works in blocks (deleteBlockSize keys per pass in the
// Badger, LevelDB and Pebble adapters). Key counts around one and two blocks,
// bracketed by keys just outside the prefix: afterwards no key under the prefix is
// left and every other key is. In the engine the block constant is executed scaled
// down (const_rewrite, stated in the evidence); natively the real block size is used.
func c10Volume(kv kvi.KVInterface, tag string) {
	id := func(s string) string { return "C10." + tag + "." + s }
	blk := vParam("NATIVE_BLOCK", vParam("BLOCK", 4))
	sizes := []int{0, 1, blk - 2, blk - 1, blk, blk + 1, 2*blk - 2, 2*blk - 1, 2 * blk, 2*blk + 1, 3*blk + 1}
	n := sizes[vChoice("keys", len(sizes))]
	key := func(i int) []byte { return []byte{'p', byte(i >> 16), byte(i >> 8), byte(i)} }
	err := kv.BulkWrite(func(bl kvi.KVBulkWrite) error {
		bl.Set([]byte("o"), []byte{1})
		bl.Set([]byte("o\xff"), []byte{1})
		for i := 0; i < n; i++ {
			bl.Set(key(i), []byte{2})
		}
		bl.Set([]byte("q"), []byte{3})
		return nil
	})
	vAssert(id("volume.load-ok"), err == nil)
	if vChoice("prefix-is-a-key", 2) == 1 {
		vAssert(id("volume.load-ok"), kv.Set([]byte("p"), []byte{4}) == nil)
	}
	vAssert(id("volume.deleteprefix-ok"), kv.DeletePrefix([]byte("p")) == nil)
	var left [][]byte
	kv.View(func(it kvi.KVIterator) error {
		for it.Seek([]byte("o")); it.Valid(); it.Next() {
			left = append(left, append([]byte{}, it.Key()...))
		}
		return nil
	})
	vReach("c10." + tag + ".volume")
	vAssert(id("volume.prefix-emptied"), len(left) == 3 && string(left[0]) == "o" && string(left[1]) == "o\xff" && string(left[2]) == "q")
	vAssert(id("volume.last-key-gone"), n == 0 || !kv.HasKey(key(n-1)))
}
