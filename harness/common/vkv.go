package PKG

// vKV: the ordered byte-string map every embedded store is supposed to be
// (C10 relates the real adapters to this model). Keys are kept sorted; every
// top-level write can be dropped from a symbolic crash point on (C04).

import (
	"bytes"
	"errors"

	"github.com/bmeg/grip/kvi"
)

type vKV struct {
	keys    [][]byte
	vals    [][]byte
	writes  int // top-level write units applied so far
	crashAt int // -1: never; otherwise write units >= crashAt are dropped
	crashed bool
}

func vNewKV() *vKV { return &vKV{crashAt: -1} }

var vErrNotFound = errors.New("key not found")
var vErrCrashed = errors.New("store crashed")

// pos returns the index of the first key >= k and whether it equals k.
func (kv *vKV) pos(k []byte) (int, bool) {
	for i := range kv.keys {
		c := bytes.Compare(kv.keys[i], k)
		if c == 0 {
			return i, true
		}
		if c > 0 {
			return i, false
		}
	}
	return len(kv.keys), false
}

func vClone(b []byte) []byte {
	o := make([]byte, len(b))
	copy(o, b)
	return o
}

func (kv *vKV) rawSet(k, v []byte) {
	i, found := kv.pos(k)
	if found {
		kv.vals[i] = vClone(v)
		return
	}
	kv.keys = append(kv.keys, nil)
	kv.vals = append(kv.vals, nil)
	copy(kv.keys[i+1:], kv.keys[i:])
	copy(kv.vals[i+1:], kv.vals[i:])
	kv.keys[i] = vClone(k)
	kv.vals[i] = vClone(v)
}

func (kv *vKV) rawDelete(k []byte) {
	i, found := kv.pos(k)
	if !found {
		return
	}
	kv.keys = append(kv.keys[:i], kv.keys[i+1:]...)
	kv.vals = append(kv.vals[:i], kv.vals[i+1:]...)
}

// unit accounts for one top-level (atomic) write; false = dropped by the crash.
func (kv *vKV) unit() bool {
	if kv.crashAt >= 0 && kv.writes >= kv.crashAt {
		kv.crashed = true
		return false
	}
	kv.writes++
	return true
}

func (kv *vKV) snapshot() ([][]byte, [][]byte) {
	ks := make([][]byte, len(kv.keys))
	vs := make([][]byte, len(kv.vals))
	copy(ks, kv.keys)
	copy(vs, kv.vals)
	return ks, vs
}

func (kv *vKV) HasKey(key []byte) bool {
	_, found := kv.pos(key)
	return found
}

func (kv *vKV) Get(key []byte) ([]byte, error) {
	i, found := kv.pos(key)
	if !found {
		return nil, vErrNotFound
	}
	return vClone(kv.vals[i]), nil
}

func (kv *vKV) Set(key, value []byte) error {
	if !kv.unit() {
		return vErrCrashed
	}
	kv.rawSet(key, value)
	return nil
}

func (kv *vKV) Delete(key []byte) error {
	if !kv.unit() {
		return vErrCrashed
	}
	kv.rawDelete(key)
	return nil
}

func (kv *vKV) DeletePrefix(prefix []byte) error {
	if !kv.unit() {
		return vErrCrashed
	}
	var ks, vs [][]byte
	for i := range kv.keys {
		if !bytes.HasPrefix(kv.keys[i], prefix) {
			ks = append(ks, kv.keys[i])
			vs = append(vs, kv.vals[i])
		}
	}
	kv.keys, kv.vals = ks, vs
	return nil
}

func (kv *vKV) Close() error { return nil }

// View reads a snapshot, as the read transactions of the real stores do: writes
// of other goroutines while the callback runs are not seen.
func (kv *vKV) View(f func(it kvi.KVIterator) error) error {
	ks, vs := kv.snapshot()
	return f(&vKVIter{kv: &vKV{keys: ks, vals: vs, crashAt: -1}, i: -1})
}

type vKVTx struct{ kv *vKV }

func (tx *vKVTx) Get(key []byte) ([]byte, error) { return tx.kv.Get(key) }
func (tx *vKVTx) HasKey(key []byte) bool         { return tx.kv.HasKey(key) }
func (tx *vKVTx) Set(key, value []byte) error    { tx.kv.rawSet(key, value); return nil }
func (tx *vKVTx) Delete(key []byte) error        { tx.kv.rawDelete(key); return nil }
func (tx *vKVTx) View(f func(it kvi.KVIterator) error) error {
	return f(&vKVIter{kv: tx.kv, i: -1})
}

// Update and BulkWrite are atomic units: all of the callback's writes or none
// (an error from the callback rolls back, as Badger and Bolt do).
func (kv *vKV) Update(f func(tx kvi.KVTransaction) error) error {
	if !kv.unit() {
		return vErrCrashed
	}
	ks, vs := kv.snapshot()
	if err := f(&vKVTx{kv: kv}); err != nil {
		kv.keys, kv.vals = ks, vs
		return err
	}
	return nil
}

func (kv *vKV) BulkWrite(f func(bl kvi.KVBulkWrite) error) error {
	if !kv.unit() {
		return vErrCrashed
	}
	ks, vs := kv.snapshot()
	if err := f(&vKVTx{kv: kv}); err != nil {
		kv.keys, kv.vals = ks, vs
		return err
	}
	return nil
}

type vKVIter struct {
	kv      *vKV
	i       int
	reverse bool // set by SeekReverse: Next then steps towards smaller keys, as every adapter does
}

func (it *vKVIter) Seek(k []byte) error {
	it.reverse = false
	it.i, _ = it.kv.pos(k)
	return nil
}

// SeekReverse positions at the largest key <= k.
func (it *vKVIter) SeekReverse(k []byte) error {
	it.reverse = true
	p, found := it.kv.pos(k)
	if found {
		it.i = p
	} else {
		it.i = p - 1
	}
	return nil
}

func (it *vKVIter) Valid() bool { return it.i >= 0 && it.i < len(it.kv.keys) }
func (it *vKVIter) Key() []byte { return vClone(it.kv.keys[it.i]) }
func (it *vKVIter) Value() ([]byte, error) {
	return vClone(it.kv.vals[it.i]), nil
}
func (it *vKVIter) Next() error {
	if it.reverse {
		it.i--
	} else {
		it.i++
	}
	return nil
}
func (it *vKVIter) Get(key []byte) ([]byte, error) { return it.kv.Get(key) }
