package PKG

import "math"

// Symbolic JSON value generator shared by several harnesses: the *kind* is an
// eager case split, the payload (number, bool, string bytes) stays symbolic.

const (
	vkNull = iota
	vkBool
	vkNum
	vkStr
	vkList
	vkMap
)

// vFinite is an arbitrary finite double (JSON carries neither NaN nor Inf).
func vFinite(name string) float64 {
	f := vNondetFloat64(name)
	vAssume(f == f && !math.IsInf(f, 0))
	return f
}

// vGenScalar: null, bool, number (not NaN), string of length <= strLen.
func vGenScalar(name string, strLen int) interface{} {
	switch vChoice(name+".kind", 4) {
	case vkNull:
		return nil
	case vkBool:
		return vNondetBool(name + ".b")
	case vkNum:
		return vFinite(name + ".n")
	default:
		return vNondetString(name+".s", strLen)
	}
}

// vGenJSON: scalar, list (<= listLen scalars) or map (<= 1 entry, key "k").
func vGenJSON(name string, listLen, strLen int) interface{} {
	switch k := vChoice(name+".kind", 6); k {
	case vkNull:
		return nil
	case vkBool:
		return vNondetBool(name + ".b")
	case vkNum:
		return vFinite(name + ".n")
	case vkStr:
		return vNondetString(name+".s", strLen)
	case vkList:
		n := vChoice(name+".len", listLen+1)
		l := make([]interface{}, n)
		for i := 0; i < n; i++ {
			l[i] = vGenScalar(name+".e", strLen)
		}
		return l
	default:
		m := map[string]interface{}{}
		if vChoice(name+".mlen", 2) == 1 {
			m["k"] = vGenScalar(name+".mv", strLen)
		}
		return m
	}
}
