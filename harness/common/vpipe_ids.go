package PKG

// vSymID: a one-byte symbolic identifier within [lo,hi].
func vSymID(name string, lo, hi byte) string {
	s := vNondetStringN(name, 1)
	vAssume(s[0] >= lo && s[0] <= hi)
	return s
}
