package PKG

// Shared components for the pipeline properties (C01 C02 C06 C07 C11 C19):
// an in-memory gdbi.GraphInterface, a Manager, a pipeline runner.

import (
	"context"

	"github.com/bmeg/grip/engine/pipeline"
	"github.com/bmeg/grip/gdbi"
	"github.com/bmeg/grip/gripql"
	"github.com/bmeg/grip/kvi"
	"google.golang.org/protobuf/types/known/structpb"
)

// vGraph keeps vertices and edges in lists and answers like kvgraph does:
// FIFO channels, dangling endpoints skipped for vertex moves, the load hint
// honoured (honourLoad) or ignored.
type vGraph struct {
	vs         []*gdbi.Vertex
	es         []*gdbi.Edge
	honourLoad bool
	compiler   func(g *vGraph) gdbi.Compiler
	lookups    int
}

func (g *vGraph) elem(e *gdbi.DataElement, load bool) *gdbi.DataElement {
	o := &gdbi.DataElement{ID: e.ID, Label: e.Label, From: e.From, To: e.To}
	if load || !g.honourLoad {
		o.Loaded = true
		o.Data = map[string]interface{}{}
		for k, v := range e.Data {
			o.Data[k] = v
		}
	}
	return o
}

func (g *vGraph) Compiler() gdbi.Compiler { return g.compiler(g) }
func (g *vGraph) GetTimestamp() string    { return "0" }

func (g *vGraph) GetVertex(key string, load bool) *gdbi.Vertex {
	g.lookups++
	for _, v := range g.vs {
		if v.ID == key {
			return g.elem(v, load)
		}
	}
	return nil
}

func (g *vGraph) GetEdge(key string, load bool) *gdbi.Edge {
	g.lookups++
	for _, e := range g.es {
		if e.ID == key {
			return g.elem(e, load)
		}
	}
	return nil
}

func (g *vGraph) AddVertex(vertex []*gdbi.Vertex) error           { return nil }
func (g *vGraph) AddEdge(edge []*gdbi.Edge) error                 { return nil }
func (g *vGraph) BulkAdd(c <-chan *gdbi.GraphElement) error       { return nil }
func (g *vGraph) DelVertex(key string) error                      { return nil }
func (g *vGraph) DelEdge(key string) error                        { return nil }
func (g *vGraph) ListVertexLabels() ([]string, error)             { return nil, nil }
func (g *vGraph) ListEdgeLabels() ([]string, error)               { return nil, nil }
func (g *vGraph) AddVertexIndex(label string, field string) error { return nil }
func (g *vGraph) DeleteVertexIndex(label string, field string) error {
	return nil
}
func (g *vGraph) GetVertexIndexList() <-chan *gripql.IndexID {
	c := make(chan *gripql.IndexID)
	close(c)
	return c
}

func (g *vGraph) VertexLabelScan(ctx context.Context, label string) chan string {
	out := make(chan string, 10)
	go func() {
		defer close(out)
		for _, v := range g.vs {
			if v.Label == label {
				out <- v.ID
			}
		}
	}()
	return out
}

func (g *vGraph) GetVertexList(ctx context.Context, load bool) <-chan *gdbi.Vertex {
	out := make(chan *gdbi.Vertex, 10)
	go func() {
		defer close(out)
		for _, v := range g.vs {
			select {
			case <-ctx.Done():
				return
			default:
			}
			out <- g.elem(v, load)
		}
	}()
	return out
}

func (g *vGraph) GetEdgeList(ctx context.Context, load bool) <-chan *gdbi.Edge {
	out := make(chan *gdbi.Edge, 10)
	go func() {
		defer close(out)
		for _, e := range g.es {
			select {
			case <-ctx.Done():
				return
			default:
			}
			out <- g.elem(e, load)
		}
	}()
	return out
}

func (g *vGraph) GetVertexChannel(ctx context.Context, req chan gdbi.ElementLookup, load bool) chan gdbi.ElementLookup {
	out := make(chan gdbi.ElementLookup, 10)
	go func() {
		defer close(out)
		for r := range req {
			if r.IsSignal() {
				out <- r
				continue
			}
			for _, v := range g.vs {
				if v.ID == r.ID {
					r.Vertex = g.elem(v, load)
					out <- r
					break
				}
			}
		}
	}()
	return out
}

func vHasLabel(labels []string, l string) bool {
	if len(labels) == 0 {
		return true
	}
	for _, x := range labels {
		if x == l {
			return true
		}
	}
	return false
}

func (g *vGraph) adjVertex(ctx context.Context, req chan gdbi.ElementLookup, load, emitNull bool, labels []string, outgoing bool) chan gdbi.ElementLookup {
	out := make(chan gdbi.ElementLookup, 10)
	go func() {
		defer close(out)
		for r := range req {
			if r.IsSignal() {
				out <- r
				continue
			}
			found := false
			for _, e := range g.es {
				near, far := e.From, e.To
				if !outgoing {
					near, far = e.To, e.From
				}
				if near == r.ID && vHasLabel(labels, e.Label) {
					for _, v := range g.vs {
						if v.ID == far {
							o := r
							o.Vertex = g.elem(v, load)
							out <- o
							found = true
							break
						}
					}
				}
			}
			if !found && emitNull {
				o := r
				o.Vertex = nil
				out <- o
			}
		}
	}()
	return out
}

func (g *vGraph) adjEdge(ctx context.Context, req chan gdbi.ElementLookup, load, emitNull bool, labels []string, outgoing bool) chan gdbi.ElementLookup {
	out := make(chan gdbi.ElementLookup, 10)
	go func() {
		defer close(out)
		for r := range req {
			if r.IsSignal() {
				out <- r
				continue
			}
			found := false
			for _, e := range g.es {
				near := e.From
				if !outgoing {
					near = e.To
				}
				if near == r.ID && vHasLabel(labels, e.Label) {
					o := r
					o.Edge = g.elem(e, load)
					out <- o
					found = true
				}
			}
			if !found && emitNull {
				o := r
				o.Edge = nil
				out <- o
			}
		}
	}()
	return out
}

func (g *vGraph) GetOutChannel(ctx context.Context, req chan gdbi.ElementLookup, load bool, emitNull bool, edgeLabels []string) chan gdbi.ElementLookup {
	return g.adjVertex(ctx, req, load, emitNull, edgeLabels, true)
}
func (g *vGraph) GetInChannel(ctx context.Context, req chan gdbi.ElementLookup, load bool, emitNull bool, edgeLabels []string) chan gdbi.ElementLookup {
	return g.adjVertex(ctx, req, load, emitNull, edgeLabels, false)
}
func (g *vGraph) GetOutEdgeChannel(ctx context.Context, req chan gdbi.ElementLookup, load bool, emitNull bool, edgeLabels []string) chan gdbi.ElementLookup {
	return g.adjEdge(ctx, req, load, emitNull, edgeLabels, true)
}
func (g *vGraph) GetInEdgeChannel(ctx context.Context, req chan gdbi.ElementLookup, load bool, emitNull bool, edgeLabels []string) chan gdbi.ElementLookup {
	return g.adjEdge(ctx, req, load, emitNull, edgeLabels, false)
}

// vManager hands out ordered-map stores and records the clean-up.
type vManager struct {
	kvs     int
	cleaned bool
}

func (m *vManager) GetTempKV() kvi.KVInterface { m.kvs++; return vNewKV() }
func (m *vManager) Cleanup()                   { m.cleaned = true }

// vRunPipe runs a compiled pipeline like pipeline.Run does (Start + Convert),
// with a small buffer size so that the channels are exercised.
func vRunPipe(gi gdbi.GraphInterface, pipe gdbi.Pipeline, bufsize int) []*gripql.QueryResult {
	man := &vManager{}
	var out []*gripql.QueryResult
	for t := range pipeline.Start(context.Background(), pipe, man, bufsize, nil, nil) {
		if !t.IsSignal() {
			out = append(out, pipeline.Convert(gi, pipe.DataType(), pipe.MarkTypes(), t))
		}
	}
	man.Cleanup()
	return out
}

// ---- protobuf construction helpers (the builders in gripql are variadic and wrap scalars) ----

func vList(ss ...string) *structpb.ListValue {
	l := &structpb.ListValue{}
	for _, s := range ss {
		l.Values = append(l.Values, structpb.NewStringValue(s))
	}
	return l
}

func vVal(v interface{}) *structpb.Value {
	p, err := structpb.NewValue(v)
	if err != nil {
		return nil
	}
	return p
}

func vCond(key string, op gripql.Condition, v interface{}) *gripql.HasExpression {
	return &gripql.HasExpression{Expression: &gripql.HasExpression_Condition{Condition: &gripql.HasCondition{Key: key, Value: vVal(v), Condition: op}}}
}

func sV(ids ...string) *gripql.GraphStatement {
	return &gripql.GraphStatement{Statement: &gripql.GraphStatement_V{V: vList(ids...)}}
}
func sE(ids ...string) *gripql.GraphStatement {
	return &gripql.GraphStatement{Statement: &gripql.GraphStatement_E{E: vList(ids...)}}
}
func sOut(l ...string) *gripql.GraphStatement {
	return &gripql.GraphStatement{Statement: &gripql.GraphStatement_Out{Out: vList(l...)}}
}
func sIn(l ...string) *gripql.GraphStatement {
	return &gripql.GraphStatement{Statement: &gripql.GraphStatement_In{In: vList(l...)}}
}
func sBoth(l ...string) *gripql.GraphStatement {
	return &gripql.GraphStatement{Statement: &gripql.GraphStatement_Both{Both: vList(l...)}}
}
func sOutE(l ...string) *gripql.GraphStatement {
	return &gripql.GraphStatement{Statement: &gripql.GraphStatement_OutE{OutE: vList(l...)}}
}
func sInE(l ...string) *gripql.GraphStatement {
	return &gripql.GraphStatement{Statement: &gripql.GraphStatement_InE{InE: vList(l...)}}
}
func sBothE(l ...string) *gripql.GraphStatement {
	return &gripql.GraphStatement{Statement: &gripql.GraphStatement_BothE{BothE: vList(l...)}}
}
func sHas(e *gripql.HasExpression) *gripql.GraphStatement {
	return &gripql.GraphStatement{Statement: &gripql.GraphStatement_Has{Has: e}}
}
func sHasLabel(l ...string) *gripql.GraphStatement {
	return &gripql.GraphStatement{Statement: &gripql.GraphStatement_HasLabel{HasLabel: vList(l...)}}
}
func sHasID(l ...string) *gripql.GraphStatement {
	return &gripql.GraphStatement{Statement: &gripql.GraphStatement_HasId{HasId: vList(l...)}}
}
func sHasKey(l ...string) *gripql.GraphStatement {
	return &gripql.GraphStatement{Statement: &gripql.GraphStatement_HasKey{HasKey: vList(l...)}}
}
func sAs(m string) *gripql.GraphStatement {
	return &gripql.GraphStatement{Statement: &gripql.GraphStatement_As{As: m}}
}
func sSelect(m ...string) *gripql.GraphStatement {
	return &gripql.GraphStatement{Statement: &gripql.GraphStatement_Select{Select: &gripql.SelectStatement{Marks: m}}}
}
func sCount() *gripql.GraphStatement {
	return &gripql.GraphStatement{Statement: &gripql.GraphStatement_Count{Count: ""}}
}
func sLimit(n uint32) *gripql.GraphStatement {
	return &gripql.GraphStatement{Statement: &gripql.GraphStatement_Limit{Limit: n}}
}
func sSkip(n uint32) *gripql.GraphStatement {
	return &gripql.GraphStatement{Statement: &gripql.GraphStatement_Skip{Skip: n}}
}
func sRange(a, b int32) *gripql.GraphStatement {
	return &gripql.GraphStatement{Statement: &gripql.GraphStatement_Range{Range: &gripql.Range{Start: a, Stop: b}}}
}
func sDistinct(f ...string) *gripql.GraphStatement {
	return &gripql.GraphStatement{Statement: &gripql.GraphStatement_Distinct{Distinct: vList(f...)}}
}
func sFields(f ...string) *gripql.GraphStatement {
	return &gripql.GraphStatement{Statement: &gripql.GraphStatement_Fields{Fields: vList(f...)}}
}
func sUnwind(f string) *gripql.GraphStatement {
	return &gripql.GraphStatement{Statement: &gripql.GraphStatement_Unwind{Unwind: f}}
}
func sRender(v interface{}) *gripql.GraphStatement {
	return &gripql.GraphStatement{Statement: &gripql.GraphStatement_Render{Render: vVal(v)}}
}
func sPath() *gripql.GraphStatement {
	return &gripql.GraphStatement{Statement: &gripql.GraphStatement_Path{Path: vList()}}
}

// ---- a small symbolic graph ----

// vGenGraph: nV vertices (ids in [a-b], equal ids allowed -> the later one is
// dropped so ids stay unique), nE edges with endpoints in [a-c] (c is absent:
// dangling), labels in [A-B], one property "x" each with a symbolic JSON value.
func vGenGraph(nV, nE int, propKinds int) *vGraph {
	g := &vGraph{honourLoad: true}
	for i := 0; i < nV; i++ {
		name := "v" + string(rune('0'+i))
		id := vSymID(name+".id", 'a', 'b')
		dup := false
		for _, o := range g.vs {
			if o.ID == id {
				dup = true
			}
		}
		if dup {
			continue
		}
		data := map[string]interface{}{}
		switch vChoice(name+".prop", propKinds) {
		case 0: // missing
		case 1:
			data["x"] = vFinite(name + ".num")
		case 2:
			data["x"] = vSymID(name+".str", 'p', 'q')
		case 3:
			data["x"] = vNondetBool(name + ".bool")
		case 4:
			n := vChoice(name+".listlen", 3)
			l := make([]interface{}, n)
			for k := 0; k < n; k++ {
				l[k] = vFinite(name + ".li")
			}
			data["x"] = l
		case 5:
			data["x"] = map[string]interface{}{"k": vFinite(name + ".mv")}
		}
		g.vs = append(g.vs, &gdbi.Vertex{ID: id, Label: vSymID(name+".label", 'A', 'B'), Data: data, Loaded: true})
	}
	for i := 0; i < nE; i++ {
		name := "e" + string(rune('0'+i))
		id := "e" + string(rune('0'+i))
		data := map[string]interface{}{}
		if vChoice(name+".prop", 2) == 1 {
			data["x"] = vFinite(name + ".num")
		}
		g.es = append(g.es, &gdbi.Edge{ID: id, From: vSymID(name+".from", 'a', 'c'), To: vSymID(name+".to", 'a', 'c'), Label: vSymID(name+".label", 'A', 'B'), Data: data, Loaded: true})
	}
	return g
}
