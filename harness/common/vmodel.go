package PKG

// Abstract graph model (the oracle of C03/C04/C18) and the observation set.

import (
	"context"

	"github.com/bmeg/grip/gdbi"
)

type mVertex struct {
	label string
	val   interface{}
}

type mEdge struct {
	from, to, label string
}

type mGraph struct {
	vids []string // insertion order irrelevant; kept as lists to avoid symbolic map keys
	vs   []mVertex
	eids []string
	es   []mEdge
}

func (g *mGraph) vIndex(id string) int {
	for i, x := range g.vids {
		if x == id {
			return i
		}
	}
	return -1
}

func (g *mGraph) eIndex(id string) int {
	for i, x := range g.eids {
		if x == id {
			return i
		}
	}
	return -1
}

func (g *mGraph) setVertex(id, label string, val interface{}) {
	if i := g.vIndex(id); i >= 0 {
		g.vs[i] = mVertex{label, val}
		return
	}
	g.vids = append(g.vids, id)
	g.vs = append(g.vs, mVertex{label, val})
}

func (g *mGraph) setEdge(id, from, to, label string) {
	if i := g.eIndex(id); i >= 0 {
		g.es[i] = mEdge{from, to, label}
		return
	}
	g.eids = append(g.eids, id)
	g.es = append(g.es, mEdge{from, to, label})
}

func (g *mGraph) delEdge(id string) bool {
	i := g.eIndex(id)
	if i < 0 {
		return false
	}
	g.eids = append(g.eids[:i:i], g.eids[i+1:]...)
	g.es = append(g.es[:i:i], g.es[i+1:]...)
	return true
}

// delVertex removes the vertex and its incident edges.
func (g *mGraph) delVertex(id string) {
	if i := g.vIndex(id); i >= 0 {
		g.vids = append(g.vids[:i:i], g.vids[i+1:]...)
		g.vs = append(g.vs[:i:i], g.vs[i+1:]...)
	}
	var eids []string
	var es []mEdge
	for i, e := range g.es {
		if e.from != id && e.to != id {
			eids = append(eids, g.eids[i])
			es = append(es, e)
		}
	}
	g.eids, g.es = eids, es
}

// vSortedEq: multiset equality of two string lists (by counting; uses only ==).
func vSortedEq(a, b []string) bool {
	if len(a) != len(b) {
		return false
	}
	for _, x := range a {
		na, nb := 0, 0
		for _, y := range a {
			if x == y {
				na++
			}
		}
		for _, y := range b {
			if x == y {
				nb++
			}
		}
		if na != nb {
			return false
		}
	}
	return true
}

func vLookupReq(ids ...string) chan gdbi.ElementLookup {
	req := make(chan gdbi.ElementLookup, len(ids)+1)
	for _, id := range ids {
		req <- gdbi.ElementLookup{ID: id}
	}
	close(req)
	return req
}

// ---- observations of a real gdbi.GraphInterface ----

func vObsVertexIDs(gi gdbi.GraphInterface) []string {
	var out []string
	for v := range gi.GetVertexList(context.Background(), true) {
		out = append(out, v.ID+"|"+v.Label)
	}
	return out
}

func vObsEdgeIDs(gi gdbi.GraphInterface) []string {
	var out []string
	for e := range gi.GetEdgeList(context.Background(), true) {
		out = append(out, e.ID+"|"+e.From+"|"+e.To+"|"+e.Label)
	}
	return out
}

func vObsOut(gi gdbi.GraphInterface, id string, labels []string) []string {
	var out []string
	for r := range gi.GetOutChannel(context.Background(), vLookupReq(id), true, false, labels) {
		out = append(out, r.Vertex.ID+"|"+r.Vertex.Label)
	}
	return out
}

func vObsIn(gi gdbi.GraphInterface, id string, labels []string) []string {
	var out []string
	for r := range gi.GetInChannel(context.Background(), vLookupReq(id), true, false, labels) {
		out = append(out, r.Vertex.ID+"|"+r.Vertex.Label)
	}
	return out
}

func vObsOutE(gi gdbi.GraphInterface, id string, labels []string, load bool) []string {
	var out []string
	for r := range gi.GetOutEdgeChannel(context.Background(), vLookupReq(id), load, false, labels) {
		out = append(out, r.Edge.ID+"|"+r.Edge.From+"|"+r.Edge.To+"|"+r.Edge.Label)
	}
	return out
}

func vObsInE(gi gdbi.GraphInterface, id string, labels []string, load bool) []string {
	var out []string
	for r := range gi.GetInEdgeChannel(context.Background(), vLookupReq(id), load, false, labels) {
		out = append(out, r.Edge.ID+"|"+r.Edge.From+"|"+r.Edge.To+"|"+r.Edge.Label)
	}
	return out
}

// ---- the same observations of the model ----

func (g *mGraph) obsVertexIDs() []string {
	var out []string
	for i, id := range g.vids {
		out = append(out, id+"|"+g.vs[i].label)
	}
	return out
}

func (g *mGraph) obsEdgeIDs() []string {
	var out []string
	for i, id := range g.eids {
		e := g.es[i]
		out = append(out, id+"|"+e.from+"|"+e.to+"|"+e.label)
	}
	return out
}

func vLabelOK(labels []string, l string) bool {
	if len(labels) == 0 {
		return true
	}
	for _, x := range labels {
		if x == l {
			return true
		}
	}
	return false
}

// obsOut: neighbours over outgoing edges; edges whose far endpoint is absent are skipped.
func (g *mGraph) obsOut(id string, labels []string) []string {
	var out []string
	for _, e := range g.es {
		if e.from == id && vLabelOK(labels, e.label) {
			if j := g.vIndex(e.to); j >= 0 {
				out = append(out, e.to+"|"+g.vs[j].label)
			}
		}
	}
	return out
}

func (g *mGraph) obsIn(id string, labels []string) []string {
	var out []string
	for _, e := range g.es {
		if e.to == id && vLabelOK(labels, e.label) {
			if j := g.vIndex(e.from); j >= 0 {
				out = append(out, e.from+"|"+g.vs[j].label)
			}
		}
	}
	return out
}

func (g *mGraph) obsOutE(id string, labels []string) []string {
	var out []string
	for i, e := range g.es {
		if e.from == id && vLabelOK(labels, e.label) {
			out = append(out, g.eids[i]+"|"+e.from+"|"+e.to+"|"+e.label)
		}
	}
	return out
}

func (g *mGraph) obsInE(id string, labels []string) []string {
	var out []string
	for i, e := range g.es {
		if e.to == id && vLabelOK(labels, e.label) {
			out = append(out, g.eids[i]+"|"+e.from+"|"+e.to+"|"+e.label)
		}
	}
	return out
}

func (g *mGraph) vLabels() []string {
	var out []string
	for _, v := range g.vs {
		dup := false
		for _, x := range out {
			if x == v.label {
				dup = true
			}
		}
		if !dup {
			out = append(out, v.label)
		}
	}
	return out
}

func (g *mGraph) eLabels() []string {
	var out []string
	for _, e := range g.es {
		dup := false
		for _, x := range out {
			if x == e.label {
				dup = true
			}
		}
		if !dup {
			out = append(out, e.label)
		}
	}
	return out
}
