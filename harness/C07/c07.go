package PKG

import (
	"context"
	"os"

	"github.com/bmeg/grip/engine/pipeline"
	"github.com/bmeg/grip/gdbi"
	"github.com/bmeg/grip/gripql"
	"github.com/influxdata/tdigest"
)

func init() {
	vHarnesses["VerifH_C07_volume"] = VerifH_C07_volume
	vHarnesses["VerifH_C07_cancel"] = VerifH_C07_cancel
	vHarnesses["VerifH_C07_run"] = VerifH_C07_run
	vHarnesses["VerifH_C07_aggregate"] = VerifH_C07_aggregate
}

// c07Cycle: n vertices on a directed cycle v0 -> v1 -> ... -> v0 (every vertex has
// one outgoing and one incoming edge), so every fan-out step yields a known row count.
func c07Cycle(n int) *vGraph {
	g := &vGraph{honourLoad: false}
	for i := 0; i < n; i++ {
		g.vs = append(g.vs, &gdbi.Vertex{ID: c07Name(i), Label: "L", Data: map[string]interface{}{"x": float64(i)}, Loaded: true})
	}
	for i := 0; i < n; i++ {
		g.es = append(g.es, &gdbi.Edge{ID: "e" + c07Name(i), From: c07Name(i), To: c07Name((i + 1) % n), Label: "E", Data: map[string]interface{}{}, Loaded: true})
	}
	g.compiler = func(g *vGraph) gdbi.Compiler { return NewCompiler(g, IndexStartOptimize) }
	return g
}

func c07Name(i int) string {
	s := ""
	for {
		s = string(rune('0'+i%10)) + s
		i /= 10
		if i == 0 {
			return "v" + s
		}
	}
}

// VerifH_C07_volume: a traversal over a finite graph closes its result stream after
// the expected number of rows whatever the number of rows relative to the internal
// channel capacities (scaled down by chan_scale under the engine, real natively),
// and leaves no goroutine and no temporary store behind; limit() stops it early.
func VerifH_C07_volume() {
	sizes := []int{0, 1, 3, 25, 45, 70, 130}
	n := sizes[vChoice("size", vParam("SIZES", 5))] * vParam("NATIVE_SCALE", 1)
	g := c07Cycle(n)
	prog := vChoice("program", 7)
	var stmts []*gripql.GraphStatement
	want := 0
	switch prog {
	case 0:
		stmts, want = []*gripql.GraphStatement{sV(), sOut()}, n
	case 1:
		stmts, want = []*gripql.GraphStatement{sV(), sBoth()}, 2*n
	case 2:
		stmts, want = []*gripql.GraphStatement{sV(), sBothE()}, 2*n
	case 3:
		stmts, want = []*gripql.GraphStatement{sE(), sBoth()}, 2*n
	case 4:
		stmts, want = []*gripql.GraphStatement{sV(), sOut(), sIn(), sCount()}, 1
	case 5:
		stmts = []*gripql.GraphStatement{sV(), sOut(), sLimit(2)}
		want = n
		if want > 2 {
			want = 2
		}
	default:
		stmts = []*gripql.GraphStatement{sV(), {Statement: &gripql.GraphStatement_Aggregate{Aggregate: &gripql.Aggregations{Aggregations: []*gripql.Aggregate{
			{Name: "c", Aggregation: &gripql.Aggregate_Count{Count: &gripql.CountAggregation{}}},
			{Name: "t", Aggregation: &gripql.Aggregate_Type{Type: &gripql.TypeAggregation{Field: "x"}}}}}}}}
		want = 2
		if n == 0 {
			want = 1
		}
	}
	if n == 1 && (prog == 1 || prog == 2 || prog == 3) {
		want = 2 // self loop: in and out
	}
	pipe, err := g.Compiler().Compile(stmts, nil)
	vAssert("C07.compiles", err == nil)
	if err != nil {
		return
	}
	vKnown("C07/both-feeds-all-inputs-before-draining", prog >= 1 && prog <= 3)
	rows := vRunPipe(g, pipe, 2)
	vReach("c07.closed")
	vAssert("C07.row-count", len(rows) == want)
	vAssert("C07.no-goroutine-left", vBlockedGoroutines() == 0)
}

// VerifH_C07_cancel: the client goes away after k rows: the context is cancelled,
// the handler keeps draining (as server.Traversal does) and the stream must still
// be closed, with no goroutine left, after at most the full number of rows.
func VerifH_C07_cancel() {
	sizes := []int{3, 25, 45, 70}
	n := sizes[vChoice("size", vParam("SIZES", 3))] * vParam("NATIVE_SCALE", 1)
	g := c07Cycle(n)
	var stmts []*gripql.GraphStatement
	full := 0
	switch vChoice("program", 4) {
	case 0:
		stmts, full = []*gripql.GraphStatement{sV(), sOut()}, n
	case 1:
		stmts, full = []*gripql.GraphStatement{sV(), sOut(), sIn()}, n
	case 2:
		stmts, full = []*gripql.GraphStatement{sE(), sOut()}, n
	default:
		stmts, full = []*gripql.GraphStatement{sV(), sOutE(), sOut(), sHasLabel("L")}, n
	}
	pipe, err := g.Compiler().Compile(stmts, nil)
	vAssert("C07.cancel.compiles", err == nil)
	if err != nil {
		return
	}
	k := vChoice("cancelAfter", 4) // rows read before the client goes away (3 = never)
	ctx, cancel := context.WithCancel(context.Background())
	man := &vManager{}
	got := 0
	for t := range pipeline.Start(ctx, pipe, man, 2, nil, nil) {
		if t.IsSignal() {
			continue
		}
		got++
		if got == k+0 && k < 3 && k > 0 {
			cancel()
		}
	}
	if k == 0 {
		cancel()
	}
	man.Cleanup()
	cancel()
	vReach("c07.cancel.closed")
	vAssert("C07.cancel.at-most-all-rows", got <= full)
	if k == 3 {
		vAssert("C07.cancel.uncancelled-complete", got == full)
	}
	vAssert("C07.cancel.no-goroutine-left", vBlockedGoroutines() == 0)
}

// c07NewManager stands in for engine.NewManager (Badger directories on disk) when
// pipeline.Run is executed symbolically; natively the real manager is used and
// the work directory is inspected instead.
var c07Man *vManager

func c07NewManager(workDir string) gdbi.Manager {
	c07Man = &vManager{}
	return c07Man
}

// VerifH_C07_run: the entry point the server uses (pipeline.Run: Start + Convert +
// the resource manager). The client reads k rows, goes away (the request context
// is cancelled) and the handler keeps draining: the result stream must close, the
// temporary stores must be released (Cleanup), no goroutine may stay blocked, and
// an uncancelled run delivers every row.
func VerifH_C07_run() {
	sizes := []int{3, 45, 260}
	n := sizes[vChoice("size", vParam("SIZES", 3))] * vParam("NATIVE_SCALE", 1)
	g := c07Cycle(n)
	var stmts []*gripql.GraphStatement
	full := n
	switch vChoice("program", 3) {
	case 0:
		stmts = []*gripql.GraphStatement{sV(), sOut()}
	case 1: // a step that keeps a temporary store
		stmts = []*gripql.GraphStatement{sV(), sDistinct("_gid"), sOut()}
	default:
		stmts = []*gripql.GraphStatement{sV(), sOut(), sIn()}
	}
	pipe, err := g.Compiler().Compile(stmts, nil)
	vAssert("C07.run.compiles", err == nil)
	if err != nil {
		return
	}
	workdir := ""
	if !vSymbolic() {
		workdir, _ = os.MkdirTemp("", "vcheck-c07-")
		defer os.RemoveAll(workdir)
	}
	k := vChoice("cancelAfter", 4) // rows read before the client goes away (3 = never)
	ctx, cancel := context.WithCancel(context.Background())
	c07Man = nil
	got := 0
	if k == 0 {
		cancel()
	}
	for range pipeline.Run(ctx, pipe, workdir) {
		got++
		if got == k && k < 3 {
			cancel()
		}
	}
	cancel()
	vReach("c07.run.closed")
	vAssert("C07.run.at-most-all-rows", got <= full)
	if k == 3 {
		vAssert("C07.run.uncancelled-complete", got == full)
	}
	if vSymbolic() {
		vAssert("C07.run.resources-released", c07Man != nil && c07Man.cleaned)
	} else {
		left, _ := os.ReadDir(workdir)
		vAssert("C07.run.resources-released", len(left) == 0)
	}
	vAssert("C07.run.no-goroutine-left", vBlockedGoroutines() <= 0)
}


// Stand-ins for influxdata/tdigest when aggregate.Process is executed symbolically
// (the centroid merging is not encodable and termination does not depend on it);
// natively the real digest is used.
func c07TDNew() *tdigest.TDigest                            { return &tdigest.TDigest{} }
func c07TDAdd(td *tdigest.TDigest, x, w float64)            {}
func c07TDQuantile(td *tdigest.TDigest, q float64) float64 { return 0 }

// VerifH_C07_aggregate: V().aggregate([kind, count]) for every aggregation kind on n
// vertices, n up to several multiples of the per-aggregation channel capacity, with
// one vertex optionally carrying a value the aggregation cannot use (a string where a
// number is expected, a list where a term is expected): the feeder pushes every row
// into every aggregation's channel, so an aggregation that stops reading before its
// channel is closed blocks the whole step. The stream must close, the count
// aggregation next to it must have seen every row, no goroutine may stay blocked.
func VerifH_C07_aggregate() {
	sizes := []int{0, 1, 3, 25, 45, 70}
	n := sizes[vChoice("size", vParam("SIZES", 5))] * vParam("NATIVE_SCALE", 1)
	g := c07Cycle(n)
	odd := vChoice("odd", 4) // 0: none, 1: first vertex, 2: middle, 3: last
	if n > 0 && odd > 0 {
		i := 0
		if odd == 2 {
			i = n / 2
		} else if odd == 3 {
			i = n - 1
		}
		if vChoice("oddKind", 2) == 0 {
			g.vs[i].Data["x"] = "n/a"
		} else {
			g.vs[i].Data["x"] = []interface{}{"p"}
		}
	}
	var a *gripql.Aggregate
	switch vChoice("agg", 6) {
	case 0:
		a = &gripql.Aggregate{Name: "a", Aggregation: &gripql.Aggregate_Term{Term: &gripql.TermAggregation{Field: "x", Size: 2}}}
	case 1:
		a = &gripql.Aggregate{Name: "a", Aggregation: &gripql.Aggregate_Histogram{Histogram: &gripql.HistogramAggregation{Field: "x", Interval: 40}}}
	case 2:
		a = &gripql.Aggregate{Name: "a", Aggregation: &gripql.Aggregate_Percentile{Percentile: &gripql.PercentileAggregation{Field: "x", Percents: []float64{50}}}}
	case 3:
		a = &gripql.Aggregate{Name: "a", Aggregation: &gripql.Aggregate_Field{Field: &gripql.FieldAggregation{Field: "x"}}}
	case 4:
		a = &gripql.Aggregate{Name: "a", Aggregation: &gripql.Aggregate_Type{Type: &gripql.TypeAggregation{Field: "x"}}}
	default:
		a = &gripql.Aggregate{Name: "a", Aggregation: &gripql.Aggregate_Count{Count: &gripql.CountAggregation{}}}
	}
	c := &gripql.Aggregate{Name: "c", Aggregation: &gripql.Aggregate_Count{Count: &gripql.CountAggregation{}}}
	aggs := []*gripql.Aggregate{a, c}
	if vChoice("countFirst", 2) == 1 {
		aggs = []*gripql.Aggregate{c, a}
	}
	stmts := []*gripql.GraphStatement{sV(), {Statement: &gripql.GraphStatement_Aggregate{Aggregate: &gripql.Aggregations{Aggregations: aggs}}}}
	pipe, err := g.Compiler().Compile(stmts, nil)
	vAssert("C07.agg.compiles", err == nil)
	if err != nil {
		return
	}
	rows := vRunPipe(g, pipe, 2)
	vReach("c07.agg.closed")
	counted, countRows := -1, 0
	for _, r := range rows {
		if ag := r.GetAggregations(); ag != nil && ag.Name == "c" {
			countRows++
			counted = int(ag.Value)
		}
	}
	vAssert("C07.agg.count-row", countRows == 1)
	vAssert("C07.agg.count-saw-every-row", counted == n)
	vAssert("C07.agg.no-goroutine-left", vBlockedGoroutines() == 0)
}
