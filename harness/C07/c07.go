package PKG

import (
	"context"
	"os"

	"github.com/bmeg/grip/engine/pipeline"
	"github.com/bmeg/grip/gdbi"
	"github.com/bmeg/grip/gripql"
)

func init() {
	vHarnesses["VerifH_C07_volume"] = VerifH_C07_volume
	vHarnesses["VerifH_C07_cancel"] = VerifH_C07_cancel
	vHarnesses["VerifH_C07_run"] = VerifH_C07_run
}

// c07Cycle: n vertices on a directed cycle v0 -> v1 -> ... -> v0 (every vertex has
// one outgoing and one incoming edge), so every fan-out step yields a known row count.
func c07Cycle(n int) *vGraph {
	g := &vGraph{honourLoad: false}
	for i := 0; i < n; i++ {
		g.vs = append(g.vs, &gdbi.Vertex{ID: c07Name(i), Label: "L", Data: map[string]interface{}{"x": float64(i)}, Loaded: true})
	}
	for i := 0; i < n; i++ {
		g.es = append(g.es, &gdbi.Edge{ID: "e" + c07Name(i), From: c07Name(i), To: c07Name((i + 1) % n), Label: "E", Data: map[string]interface{}{}, Loaded: true})
	}
	g.compiler = func(g *vGraph) gdbi.Compiler { return NewCompiler(g, IndexStartOptimize) }
	return g
}

func c07Name(i int) string {
	s := ""
	for {
		s = string(rune('0'+i%10)) + s
		i /= 10
		if i == 0 {
			return "v" + s
		}
	}
}

// VerifH_C07_volume: a traversal over a finite graph closes its result stream after
// the expected number of rows whatever the number of rows relative to the internal
// channel capacities (scaled down by chan_scale under the engine, real natively),
// and leaves no goroutine and no temporary store behind; limit() stops it early.
func VerifH_C07_volume() {
	sizes := []int{0, 1, 3, 25, 45, 70, 130}
	n := sizes[vChoice("size", vParam("SIZES", 5))] * vParam("NATIVE_SCALE", 1)
	g := c07Cycle(n)
	prog := vChoice("program", 7)
	var stmts []*gripql.GraphStatement
	want := 0
	switch prog {
	case 0:
		stmts, want = []*gripql.GraphStatement{sV(), sOut()}, n
	case 1:
		stmts, want = []*gripql.GraphStatement{sV(), sBoth()}, 2*n
	case 2:
		stmts, want = []*gripql.GraphStatement{sV(), sBothE()}, 2*n
	case 3:
		stmts, want = []*gripql.GraphStatement{sE(), sBoth()}, 2*n
	case 4:
		stmts, want = []*gripql.GraphStatement{sV(), sOut(), sIn(), sCount()}, 1
	case 5:
		stmts = []*gripql.GraphStatement{sV(), sOut(), sLimit(2)}
		want = n
		if want > 2 {
			want = 2
		}
	default:
		stmts = []*gripql.GraphStatement{sV(), {Statement: &gripql.GraphStatement_Aggregate{Aggregate: &gripql.Aggregations{Aggregations: []*gripql.Aggregate{
			{Name: "c", Aggregation: &gripql.Aggregate_Count{Count: &gripql.CountAggregation{}}},
			{Name: "t", Aggregation: &gripql.Aggregate_Type{Type: &gripql.TypeAggregation{Field: "x"}}}}}}}}
		want = 2
		if n == 0 {
			want = 1
		}
	}
	if n == 1 && (prog == 1 || prog == 2 || prog == 3) {
		want = 2 // self loop: in and out
	}
	pipe, err := g.Compiler().Compile(stmts, nil)
	vAssert("C07.compiles", err == nil)
	if err != nil {
		return
	}
	vKnown("C07/both-feeds-all-inputs-before-draining", prog >= 1 && prog <= 3)
	rows := vRunPipe(g, pipe, 2)
	vReach("c07.closed")
	vAssert("C07.row-count", len(rows) == want)
	vAssert("C07.no-goroutine-left", vBlockedGoroutines() == 0)
}

// VerifH_C07_cancel: the client goes away after k rows: the context is cancelled,
// the handler keeps draining (as server.Traversal does) and the stream must still
// be closed, with no goroutine left, after at most the full number of rows.
func VerifH_C07_cancel() {
	sizes := []int{3, 25, 45, 70}
	n := sizes[vChoice("size", vParam("SIZES", 3))] * vParam("NATIVE_SCALE", 1)
	g := c07Cycle(n)
	var stmts []*gripql.GraphStatement
	full := 0
	switch vChoice("program", 4) {
	case 0:
		stmts, full = []*gripql.GraphStatement{sV(), sOut()}, n
	case 1:
		stmts, full = []*gripql.GraphStatement{sV(), sOut(), sIn()}, n
	case 2:
		stmts, full = []*gripql.GraphStatement{sE(), sOut()}, n
	default:
		stmts, full = []*gripql.GraphStatement{sV(), sOutE(), sOut(), sHasLabel("L")}, n
	}
	pipe, err := g.Compiler().Compile(stmts, nil)
	vAssert("C07.cancel.compiles", err == nil)
	if err != nil {
		return
	}
	k := vChoice("cancelAfter", 4) // rows read before the client goes away (3 = never)
	ctx, cancel := context.WithCancel(context.Background())
	man := &vManager{}
	got := 0
	for t := range pipeline.Start(ctx, pipe, man, 2, nil, nil) {
		if t.IsSignal() {
			continue
		}
		got++
		if got == k+0 && k < 3 && k > 0 {
			cancel()
		}
	}
	if k == 0 {
		cancel()
	}
	man.Cleanup()
	cancel()
	vReach("c07.cancel.closed")
	vAssert("C07.cancel.at-most-all-rows", got <= full)
	if k == 3 {
		vAssert("C07.cancel.uncancelled-complete", got == full)
	}
	vAssert("C07.cancel.no-goroutine-left", vBlockedGoroutines() == 0)
}

// c07NewManager stands in for engine.NewManager (Badger directories on disk) when
// pipeline.Run is executed symbolically; natively the real manager is used and
// the work directory is inspected instead.
var c07Man *vManager

func c07NewManager(workDir string) gdbi.Manager {
	c07Man = &vManager{}
	return c07Man
}

// VerifH_C07_run: the entry point the server uses (pipeline.Run: Start + Convert +
// the resource manager). The client reads k rows, goes away (the request context
// is cancelled) and the handler keeps draining: the result stream must close, the
// temporary stores must be released (Cleanup), no goroutine may stay blocked, and
// an uncancelled run delivers every row.
func VerifH_C07_run() {
	sizes := []int{3, 45, 260}
	n := sizes[vChoice("size", vParam("SIZES", 3))] * vParam("NATIVE_SCALE", 1)
	g := c07Cycle(n)
	var stmts []*gripql.GraphStatement
	full := n
	switch vChoice("program", 3) {
	case 0:
		stmts = []*gripql.GraphStatement{sV(), sOut()}
	case 1: // a step that keeps a temporary store
		stmts = []*gripql.GraphStatement{sV(), sDistinct("_gid"), sOut()}
	default:
		stmts = []*gripql.GraphStatement{sV(), sOut(), sIn()}
	}
	pipe, err := g.Compiler().Compile(stmts, nil)
	vAssert("C07.run.compiles", err == nil)
	if err != nil {
		return
	}
	workdir := ""
	if !vSymbolic() {
		workdir, _ = os.MkdirTemp("", "vcheck-c07-")
		defer os.RemoveAll(workdir)
	}
	k := vChoice("cancelAfter", 4) // rows read before the client goes away (3 = never)
	ctx, cancel := context.WithCancel(context.Background())
	c07Man = nil
	got := 0
	if k == 0 {
		cancel()
	}
	for range pipeline.Run(ctx, pipe, workdir) {
		got++
		if got == k && k < 3 {
			cancel()
		}
	}
	cancel()
	vReach("c07.run.closed")
	vAssert("C07.run.at-most-all-rows", got <= full)
	if k == 3 {
		vAssert("C07.run.uncancelled-complete", got == full)
	}
	if vSymbolic() {
		vAssert("C07.run.resources-released", c07Man != nil && c07Man.cleaned)
	} else {
		left, _ := os.ReadDir(workdir)
		vAssert("C07.run.resources-released", len(left) == 0)
	}
	vAssert("C07.run.no-goroutine-left", vBlockedGoroutines() <= 0)
}
