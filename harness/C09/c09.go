package PKG

import (
	"bytes"
	"context"
	"math"
)

func init() {
	vHarnesses["VerifH_C09_encoding"] = VerifH_C09_encoding
	vHarnesses["VerifH_C09_keys"] = VerifH_C09_keys
	vHarnesses["VerifH_C09_history"] = VerifH_C09_history
	vHarnesses["VerifH_C09_reregister"] = VerifH_C09_reregister
}

// VerifH_C09_encoding: the number/string term encoding is loss-free, and for
// finite numbers of equal sign the byte order of the 8-byte term is the numeric
// order (ascending for non-negatives, descending for negatives) - the premise of
// the min/max/range scans.
func VerifH_C09_encoding() {
	x := vNondetFloat64("x")
	y := vNondetFloat64("y")
	tb, tt := GetTermBytes(x)
	vAssert("C09.enc.number-type", tt == TermNumber && len(tb) == 8)
	back := GetBytesTerm(tb, tt).(float64)
	// loss-free up to the sign of zero: -0 and +0 are one number and one term
	vAssert("C09.enc.number-roundtrip", math.Float64bits(back) == math.Float64bits(x) || (x != x && back != back) || (x == 0 && back == 0))
	zb, _ := GetTermBytes(math.Copysign(0, -1))
	pb, _ := GetTermBytes(0.0)
	vAssert("C09.enc.zero-is-one-term", bytes.Equal(zb, pb))
	s := vNondetString("s", 2)
	sb, st := GetTermBytes(s)
	vAssert("C09.enc.string-roundtrip", st == TermString && GetBytesTerm(sb, st).(string) == s)
	vAssume(x == x && y == y)
	ub, _ := GetTermBytes(y)
	c := bytes.Compare(tb, ub)
	// stated over numeric values (zero of either sign is a non-negative number)
	if x >= 0 && y >= 0 {
		vAssert("C09.enc.order-nonneg", (c < 0) == (x < y) && (c == 0) == (x == y))
	}
	if x < 0 && y < 0 {
		vAssert("C09.enc.order-neg", (c < 0) == (x > y) && (c == 0) == (x == y))
	}
	if x < 0 && y >= 0 {
		vAssert("C09.enc.neg-after-nonneg", c > 0)
	}
}

func c09NUL(s string) bool {
	for i := 0; i < len(s); i++ {
		if s[i] == 0 {
			return true
		}
	}
	return false
}

// VerifH_C09_keys: entry/term/field keys parse back to their components.
func VerifH_C09_keys() {
	L := vParam("L", 2)
	field := vNondetString("field", L)
	doc := vNondetString("doc", L)
	// field names are graph.v.label style paths and document ids are element ids: both NUL-free
	vAssume(!c09NUL(field) && !c09NUL(doc))
	vAssert("C09.key.field-roundtrip", FieldKeyParse(FieldKey(field)) == field)
	// the per-field scan/delete prefixes capture exactly the keys of that field
	field2 := vNondetString("field2", L)
	vAssume(!c09NUL(field2))
	ek := EntryKey(field2, TermString, []byte("t"), doc)
	tk := TermKey(field2, TermString, []byte("t"))
	vAssert("C09.key.entry-field-prefix-isolation", bytes.HasPrefix(ek, EntryPrefix(field)) == (field == field2))
	vAssert("C09.key.term-field-prefix-isolation", bytes.HasPrefix(tk, TermPrefix(field)) == (field == field2))
	vAssert("C09.key.entry-type-prefix-isolation", bytes.HasPrefix(ek, EntryTypePrefix(field, TermString)) == (field == field2))
	if vChoice("termtype", 2) == 0 {
		term := vNondetString("term", L)
		vKnown("C09/string-term-with-nul", c09NUL(term))
		f, t, tm, d := EntryKeyParse(EntryKey(field, TermString, []byte(term), doc))
		vAssert("C09.key.entry-string-roundtrip", f == field && t == TermString && string(tm) == term && d == doc)
		f2, t2, tm2 := TermKeyParse(TermKey(field, TermString, []byte(term)))
		vAssert("C09.key.term-string-roundtrip", f2 == field && t2 == TermString && string(tm2) == term)
		term2 := vNondetString("term2", L)
		vAssume(!c09NUL(term) && !c09NUL(term2))
		// the scan prefix of one (field, term) captures exactly the entries of that term
		k := EntryKey(field, TermString, []byte(term2), doc)
		vAssert("C09.key.entry-prefix-isolation", bytes.HasPrefix(k, EntryValuePrefix(field, TermString, []byte(term))) == (term == term2))
	} else {
		x := vNondetFloat64("x")
		tb, _ := GetTermBytes(x)
		f, t, tm, d := EntryKeyParse(EntryKey(field, TermNumber, tb, doc))
		vAssert("C09.key.entry-number-roundtrip", f == field && t == TermNumber && bytes.Equal(tm, tb) && d == doc)
		f2, t2, tm2 := TermKeyParse(TermKey(field, TermNumber, tb))
		vAssert("C09.key.term-number-roundtrip", f2 == field && t2 == TermNumber && bytes.Equal(tm2, tb))
	}
}

// ---- histories against a brute-force scan ----

type c09Doc struct {
	id    string
	isNum bool
	num   float64
	str   string
	live  bool
}

func c09Match(idx *KVIndex, field string, v interface{}) []string {
	var out []string
	for d := range idx.GetTermMatch(context.Background(), field, v, 0) {
		out = append(out, d)
	}
	return out
}

func c09SetEq(a, b []string) bool {
	if len(a) != len(b) {
		return false
	}
	for _, x := range a {
		na, nb := 0, 0
		for _, y := range a {
			if x == y {
				na++
			}
		}
		for _, y := range b {
			if x == y {
				nb++
			}
		}
		if na != nb {
			return false
		}
	}
	return true
}

func VerifH_C09_history() {
	D := vParam("D", 2)
	kv := vNewKV()
	idx := NewIndex(kv)
	idx.AddField("f.x")
	idx.AddField("f.xy") // a second indexed field whose name extends the first
	idx.AddDoc("k1", map[string]interface{}{"f": map[string]interface{}{"xy": "w"}})
	xRemoved := false
	docs := []*c09Doc{{id: "d1"}, {id: "d2"}}
	replaced := false
	for s := 0; s < D; s++ {
		name := "s" + string(rune('0'+s))
		d := docs[vChoice(name+".doc", 2)]
		switch vChoice(name+".op", 3) {
		case 2: // stop indexing f.x: its terms and entries go away, f.xy stays
			idx.RemoveField("f.x")
			xRemoved = true
			for _, o := range docs {
				o.live = false
			}
		case 0: // AddDoc (insert or replace)
			if d.live {
				replaced = true
			}
			if vChoice(name+".kind", 2) == 0 {
				v := vFinite(name + ".num")
				idx.AddDoc(d.id, map[string]interface{}{"f": map[string]interface{}{"x": v}})
				d.isNum, d.num, d.live = true, v, true
			} else {
				v := vNondetStringN(name+".str", 1)
				vAssume(v[0] >= 'p' && v[0] <= 'q')
				idx.AddDoc(d.id, map[string]interface{}{"f": map[string]interface{}{"x": v}})
				d.isNum, d.str, d.live = false, v, true
			}
		case 1:
			idx.RemoveDoc(d.id)
			d.live = false
		}
		// the sibling field is never touched by any operation on f.x
		sib := c09Match(idx, "f.xy", "w")
		vAssert("C09.hist.sibling-field-intact", len(sib) == 1 && sib[0] == "k1")
		if xRemoved {
			// documents added after the removal are not indexed under f.x any more
			for _, o := range docs {
				o.live = false
			}
		}
		vKnown("C09/replace-leaves-old-entry", replaced)
		negZero := false
		for _, o := range docs {
			if o.isNum && o.num == 0 && math.Signbit(o.num) {
				negZero = true
			}
		}
		vKnown("C09/negative-zero-distinct-term", negZero)
		// queries vs brute force over the live documents
		for _, q := range docs {
			if !q.live {
				continue
			}
			var want []string
			var got []string
			if q.isNum {
				for _, o := range docs {
					if o.live && o.isNum && o.num == q.num {
						want = append(want, o.id)
					}
				}
				got = c09Match(idx, "f.x", q.num)
			} else {
				for _, o := range docs {
					if o.live && !o.isNum && o.str == q.str {
						want = append(want, o.id)
					}
				}
				got = c09Match(idx, "f.x", q.str)
			}
			vAssert("C09.hist.term-match", c09SetEq(got, want))
		}
		// numeric min / max over live numeric documents
		haveNum := false
		mn, mx := 0.0, 0.0
		for _, o := range docs {
			if o.live && o.isNum {
				if !haveNum || o.num < mn {
					mn = o.num
				}
				if !haveNum || o.num > mx {
					mx = o.num
				}
				haveNum = true
			}
		}
		if haveNum {
			vAssert("C09.hist.number-min", idx.FieldTermNumberMin("f.x") == mn)
			vAssert("C09.hist.number-max", idx.FieldTermNumberMax("f.x") == mx)
		}
		// string term counts
		nStr := 0
		for _, o := range docs {
			if o.live && !o.isNum {
				nStr++
			}
		}
		total := uint64(0)
		for tc := range idx.FieldStringTermCounts("f.x") {
			total += tc.Count
		}
		vAssert("C09.hist.string-term-counts-total", total == uint64(nStr))
	}
}

// VerifH_C09_reregister: histories in which the indexed field itself comes and
// goes (RemoveField, AddField again) between document writes, observed either
// after every step or only once at the end (a query may repair state that a
// later query would otherwise expose, so both are explored). Values come from a
// two-element universe so that a term is shared, dropped and re-created.
func VerifH_C09_reregister() {
	D := vParam("D", 4)
	kv := vNewKV()
	idx := NewIndex(kv)
	idx.AddField("f.x")
	registered := true
	type doc struct {
		id      string
		indexed bool
		isNum   bool
	}
	docs := []*doc{{id: "d1"}, {id: "d2"}}
	everyStep := vChoice("observe", 2) == 1
	observe := func() {
		wantNum, wantStr := 0, 0
		for _, o := range docs {
			if o.indexed && o.isNum {
				wantNum++
			}
			if o.indexed && !o.isNum {
				wantStr++
			}
		}
		// term listing
		nNum, nStr, other := 0, 0, 0
		for t := range idx.FieldTerms("f.x") {
			switch v := t.(type) {
			case float64:
				if v == 1.5 {
					nNum++
				} else {
					other++
				}
			case string:
				if v == "p" {
					nStr++
				} else {
					other++
				}
			default:
				other++
			}
		}
		vAssert("C09.rereg.terms", other == 0 && (nNum == 1) == (wantNum > 0) && (nStr == 1) == (wantStr > 0) && nNum <= 1 && nStr <= 1)
		// per-term counts
		cNum, cStr := uint64(0), uint64(0)
		for tc := range idx.FieldTermCounts("f.x") {
			if tc.String == "p" {
				cStr += tc.Count
			} else if tc.Number == 1.5 {
				cNum += tc.Count
			} else {
				other++
			}
		}
		vAssert("C09.rereg.term-counts", other == 0 && cNum == uint64(wantNum) && cStr == uint64(wantStr))
		// term match
		var wn, ws []string
		for _, o := range docs {
			if o.indexed && o.isNum {
				wn = append(wn, o.id)
			}
			if o.indexed && !o.isNum {
				ws = append(ws, o.id)
			}
		}
		vAssert("C09.rereg.term-match", c09SetEq(c09Match(idx, "f.x", 1.5), wn) && c09SetEq(c09Match(idx, "f.x", "p"), ws))
	}
	for s := 0; s < D; s++ {
		name := "s" + string(rune('0'+s))
		d := docs[vChoice(name+".doc", 2)]
		switch vChoice(name+".op", 4) {
		case 0: // AddDoc of a document that is not indexed at the moment (replacement is a listed finding of the history harness)
			if d.indexed {
				return
			}
			if vChoice(name+".kind", 2) == 0 {
				idx.AddDoc(d.id, map[string]interface{}{"f": map[string]interface{}{"x": 1.5}})
				d.isNum = true
			} else {
				idx.AddDoc(d.id, map[string]interface{}{"f": map[string]interface{}{"x": "p"}})
				d.isNum = false
			}
			d.indexed = registered
		case 1:
			if !d.indexed {
				return
			}
			idx.RemoveDoc(d.id)
			d.indexed = false
		case 2:
			if !registered {
				return
			}
			idx.RemoveField("f.x")
			registered = false
			for _, o := range docs {
				o.indexed = false
			}
		default:
			if registered {
				return
			}
			idx.AddField("f.x")
			registered = true
		}
		if everyStep {
			observe()
		}
	}
	vReach("c09.rereg.end")
	observe()
}
