package PKG

// C09: the remaining index queries - set of terms, per-term counts, ascending
// numeric listing, numeric range counts - against a brute-force scan of the live
// documents, for numbers around the sign boundary.

func init() {
	vHarnesses["VerifH_C09_queries"] = VerifH_C09_queries
}

var c09Grid = []float64{-2, -0.5, 0, 0.5, 3}

func c09SortedEq(got, want []float64) bool {
	if len(got) != len(want) {
		return false
	}
	for i := range got {
		if got[i] != want[i] {
			return false
		}
	}
	return true
}

// VerifH_C09_queries: up to N documents with numbers from a grid around zero, an
// optional removal, then every numeric query compared with the live documents.
func VerifH_C09_queries() {
	N := vParam("N", 3)
	kv := vNewKV()
	idx := NewIndex(kv)
	idx.AddField("f.x")
	ids := []string{"d1", "d2", "d3"}[:N]
	live := map[string]bool{}
	val := map[string]float64{}
	for _, id := range ids {
		k := vChoice(id+".val", len(c09Grid)+1)
		if k == len(c09Grid) {
			continue // not added
		}
		idx.AddDoc(id, map[string]interface{}{"f": map[string]interface{}{"x": c09Grid[k]}})
		live[id], val[id] = true, c09Grid[k]
	}
	removed := false
	if vChoice("remove", 2) == 1 && live["d1"] {
		idx.RemoveDoc("d1")
		live["d1"] = false
		removed = true
	}
	// brute force: the live values in ascending order
	var sorted []float64
	for _, g := range c09Grid {
		for _, id := range ids {
			if live[id] && val[id] == g {
				sorted = append(sorted, g)
			}
		}
	}
	count := func(g float64) uint64 {
		n := uint64(0)
		for _, v := range sorted {
			if v == g {
				n++
			}
		}
		return n
	}
	vKnownFor("C09/remove-doc-miscounts-term", removed, "C09.q.term-counts,C09.q.terms")
	// ascending listing, one entry per live document
	var listing []float64
	for v := range idx.FieldNumbers("f.x") {
		listing = append(listing, v)
	}
	vAssert("C09.q.ascending-listing", c09SortedEq(listing, sorted))
	// the set of terms
	seen := map[float64]int{}
	for t := range idx.FieldTerms("f.x") {
		if f, ok := t.(float64); ok {
			seen[f]++
		}
	}
	okTerms := true
	for _, g := range c09Grid {
		want := 0
		if count(g) > 0 {
			want = 1
		}
		if seen[g] != want {
			okTerms = false
		}
	}
	vAssert("C09.q.terms", okTerms)
	// per-term counts
	got := map[float64]uint64{}
	for tc := range idx.FieldTermCounts("f.x") {
		got[tc.Number] += tc.Count
	}
	okCounts := true
	for _, g := range c09Grid {
		if got[g] != count(g) {
			okCounts = false
		}
	}
	vAssert("C09.q.term-counts", okCounts)
	// range counts: terms v with lo <= v < hi
	lo := c09Grid[vChoice("lo", len(c09Grid))]
	hi := c09Grid[vChoice("hi", len(c09Grid))]
	rng := map[float64]uint64{}
	for tc := range idx.FieldTermNumberRange("f.x", lo, hi) {
		rng[tc.Number] += tc.Count
	}
	okRange := true
	for _, g := range c09Grid {
		want := uint64(0)
		if g >= lo && g < hi {
			want = count(g)
		}
		if rng[g] != want {
			okRange = false
		}
	}
	vKnownFor("C09/number-range-wrong-for-negative-bounds", lo < 0, "C09.q.range-counts")
	vAssert("C09.q.range-counts", okRange)
	vReach("c09.q.done")
}
