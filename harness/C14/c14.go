package PKG

import (
	"github.com/bmeg/grip/engine/core"
	"github.com/bmeg/grip/engine/logic"
	"github.com/bmeg/grip/gdbi"
	"github.com/bmeg/grip/gripql"
	"go.mongodb.org/mongo-driver/bson"
)

func init() {
	vHarnesses["VerifH_C14_typing"] = VerifH_C14_typing
	vHarnesses["VerifH_C14_filter"] = VerifH_C14_filter
}

// c14Stmt: the steps the Mongo compiler supports.
func c14Stmt(name string, marked *bool) *gripql.GraphStatement {
	switch vChoice(name+".k", 24) {
	case 0:
		return sV()
	case 1:
		return sE()
	case 2:
		return sOut()
	case 3:
		return sIn()
	case 4:
		return sBoth()
	case 5:
		return sOutE()
	case 6:
		return sInE()
	case 7:
		return sBothE()
	case 8:
		return sHas(vCond("x", gripql.Condition_EQ, 1.0))
	case 9:
		return sHasLabel("A")
	case 10:
		return sHasID("a")
	case 11:
		return sHasKey("x")
	case 12:
		return sLimit(1)
	case 13:
		return sSkip(1)
	case 14:
		return sRange(0, 2)
	case 15:
		return sCount()
	case 16:
		return sDistinct("x")
	case 17:
		*marked = true
		return sAs([]string{"m", "u"}[vChoice(name+".mark", 2)])
	case 18:
		vAssume(*marked) // marks are defined before use
		return sSelect("m")
	case 19:
		vAssume(*marked)
		return sSelect("m", "u")
	case 20:
		return sRender(map[string]interface{}{"i": "_gid"})
	case 21:
		return sPath()
	case 22:
		return sUnwind("y")
	default:
		return sFields("x")
	}
}

func c14MarksEq(a, b map[string]gdbi.DataType) bool {
	if len(a) != len(b) {
		return false
	}
	for k, v := range a {
		w, ok := b[k]
		if !ok || v != w {
			return false
		}
	}
	return true
}

// VerifH_C14_typing: the Mongo compiler accepts exactly what the core compiler
// accepts and assigns the same result type and mark types.
func VerifH_C14_typing() {
	N := vParam("N", 3)
	n := 1 + vChoice("len", N)
	marked := false
	var stmts []*gripql.GraphStatement
	for i := 0; i < n; i++ {
		stmts = append(stmts, c14Stmt("s"+string(rune('0'+i)), &marked))
	}
	// select(m) needs m itself to be defined; with two mark names the generator
	// may define only u: restrict to traversals where every selected mark was set
	defined := map[string]bool{}
	for _, s := range stmts {
		if a, ok := s.GetStatement().(*gripql.GraphStatement_As); ok {
			defined[a.As] = true
		}
		if sel, ok := s.GetStatement().(*gripql.GraphStatement_Select); ok {
			for _, m := range sel.Select.Marks {
				vAssume(defined[m])
			}
		}
	}
	g := &Graph{graph: "g"}
	mp, errM := NewCompiler(g).Compile(stmts, nil)
	cp, errC := core.NewCompiler(g).Compile(stmts, nil)
	vAssert("C14.typing.accept-agree", (errM == nil) == (errC == nil))
	if errM != nil || errC != nil {
		vReach("c14.rejected")
		return
	}
	vReach("c14.accepted")
	vAssert("C14.typing.datatype-agree", mp.DataType() == cp.DataType())
	vAssert("C14.typing.marktypes-agree", c14MarksEq(mp.MarkTypes(), cp.MarkTypes()))
}

// ---- $match interpreter (MongoDB's documented semantics, scalar documents) ----

func c14Class(v interface{}) int {
	switch v.(type) {
	case nil:
		return 0
	case float64:
		return 1
	case string:
		return 2
	case bool:
		return 3
	}
	return 9
}

func c14Eq(a, b interface{}) bool {
	switch x := a.(type) {
	case nil:
		return b == nil
	case float64:
		y, ok := b.(float64)
		return ok && x == y
	case string:
		y, ok := b.(string)
		return ok && x == y
	case bool:
		y, ok := b.(bool)
		return ok && x == y
	}
	return false
}

// c14Less: comparison operators only match values of the same type bracket.
func c14Less(a, b interface{}) (less bool, comparable bool) {
	switch x := a.(type) {
	case float64:
		y, ok := b.(float64)
		return ok && x < y, ok
	case string:
		y, ok := b.(string)
		return ok && x < y, ok
	case bool:
		y, ok := b.(bool)
		return ok && !x && y, ok
	}
	return false, false
}

// c14Op evaluates {op: arg} on a field value (missing = not present).
func c14Op(op string, arg interface{}, val interface{}, present bool) bool {
	if !present {
		val = nil
	}
	switch op {
	case "$eq":
		return c14Eq(val, arg)
	case "$ne":
		return !c14Eq(val, arg)
	case "$gt":
		l, ok := c14Less(arg, val)
		return present && ok && l
	case "$lt":
		l, ok := c14Less(val, arg)
		return present && ok && l
	case "$gte":
		l, ok := c14Less(arg, val)
		return present && ok && (l || c14Eq(val, arg))
	case "$lte":
		l, ok := c14Less(val, arg)
		return present && ok && (l || c14Eq(val, arg))
	case "$in":
		l, ok := arg.([]interface{})
		if !ok {
			return false // the server rejects $in with a non-array
		}
		for _, x := range l {
			if c14Eq(val, x) {
				return true
			}
		}
		return false
	case "$not":
		return !c14Ops(arg, val, present)
	}
	return false
}

func c14Ops(cond interface{}, val interface{}, present bool) bool {
	m, ok := cond.(bson.M)
	if !ok {
		return c14Eq(val, cond)
	}
	for op, arg := range m {
		if !c14Op(op, arg, val, present) {
			return false
		}
	}
	return true
}

// c14Match evaluates a filter document on the one-field document {x: val}.
func c14Match(filter bson.M, val interface{}, present bool) bool {
	for k, v := range filter {
		switch k {
		case "$and":
			for _, sub := range v.([]bson.M) {
				if !c14Match(sub, val, present) {
					return false
				}
			}
		case "$or":
			any := false
			for _, sub := range v.([]bson.M) {
				if c14Match(sub, val, present) {
					any = true
				}
			}
			if !any {
				return false
			}
		case "data.x":
			if !c14Ops(v, val, present) {
				return false
			}
		default:
			// a field the document does not have
			if !c14Ops(v, nil, false) {
				return false
			}
		}
	}
	return true
}

func c14Scalar(name string) (interface{}, bool) {
	switch vChoice(name+".kind", 5) {
	case 0:
		return nil, false // missing
	case 1:
		return nil, true
	case 2:
		return vFinite(name + ".n"), true
	case 3:
		// concrete, non-numeric text (the ParseFloat model would allow symbolic bytes to be numeric text)
		return []string{"a", "b", "c"}[vChoice(name+".s", 3)], true
	default:
		return vNondetBool(name + ".b"), true
	}
}

func c14IsOrdering(op gripql.Condition) bool {
	return op >= gripql.Condition_GT && op <= gripql.Condition_BETWEEN
}

// c14Regions declares where the two semantics are known to differ, per leaf.
func c14Regions(e *gripql.HasExpression, val interface{}, present bool) {
	switch x := e.Expression.(type) {
	case *gripql.HasExpression_Condition:
		c := x.Condition
		arg := c.Value.AsInterface()
		_, docStr := val.(string)
		_, docBool := val.(bool)
		_, argStr := arg.(string)
		_, argBool := arg.(bool)
		vKnownFor("C14/string-ordering", c14IsOrdering(c.Condition) && docStr && argStr, "C14.filter.equivalent")
		vKnownFor("C08/bool-ordering", c14IsOrdering(c.Condition) && (docBool || argBool), "C14.filter.equivalent")
		vKnownFor("C14/contains-on-scalar", c.Condition == gripql.Condition_CONTAINS, "C14.filter.equivalent")
	case *gripql.HasExpression_Not:
		c14Regions(x.Not, val, present)
	case *gripql.HasExpression_And:
		for _, s := range x.And.Expressions {
			c14Regions(s, val, present)
		}
	case *gripql.HasExpression_Or:
		for _, s := range x.Or.Expressions {
			c14Regions(s, val, present)
		}
	}
}

func c14Leaf(name string) *gripql.HasExpression {
	op := gripql.Condition(1 + vChoice(name+".op", 12))
	var arg interface{}
	switch op {
	case gripql.Condition_INSIDE, gripql.Condition_OUTSIDE, gripql.Condition_BETWEEN:
		arg = []interface{}{vFinite(name + ".lo"), vFinite(name + ".hi")}
	case gripql.Condition_WITHIN, gripql.Condition_WITHOUT:
		a, _ := c14Scalar(name + ".w0")
		b, _ := c14Scalar(name + ".w1")
		arg = []interface{}{a, b}
	default:
		arg, _ = c14Scalar(name + ".arg")
	}
	return vCond("x", op, arg)
}

func c14Expr(name string, depth int) *gripql.HasExpression {
	n := 1
	if depth > 0 {
		n = 5
	}
	switch vChoice(name+".e", n) {
	case 0:
		return c14Leaf(name)
	case 4:
		return &gripql.HasExpression{Expression: &gripql.HasExpression_Not{Not: &gripql.HasExpression{Expression: &gripql.HasExpression_Not{Not: c14Leaf(name + "nn")}}}}
	case 1:
		return &gripql.HasExpression{Expression: &gripql.HasExpression_Not{Not: c14Expr(name+"n", depth-1)}}
	case 2:
		return &gripql.HasExpression{Expression: &gripql.HasExpression_And{And: &gripql.HasExpressionList{Expressions: []*gripql.HasExpression{c14Expr(name+"a", depth-1), c14Second(name+"b", depth-1)}}}}
	default:
		return &gripql.HasExpression{Expression: &gripql.HasExpression_Or{Or: &gripql.HasExpressionList{Expressions: []*gripql.HasExpression{c14Expr(name+"a", depth-1), c14Second(name+"b", depth-1)}}}}
	}
}

// c14Second: the second operand of and/or - any expression in the thorough tier,
// one of two simple conditions (one true, one false for numbers) in the quick tier.
func c14Second(name string, depth int) *gripql.HasExpression {
	if vParam("PAIRS", 0) == 1 {
		return c14Expr(name, depth)
	}
	if vChoice(name+".second", 2) == 0 {
		return vCond("x", gripql.Condition_NEQ, "zz")
	}
	return vCond("x", gripql.Condition_EQ, "zz")
}

func c14NestedNot(e *gripql.HasExpression, under bool) bool {
	switch x := e.Expression.(type) {
	case *gripql.HasExpression_Not:
		if under {
			return true
		}
		return c14NestedNot(x.Not, true)
	case *gripql.HasExpression_And:
		for _, s := range x.And.Expressions {
			if c14NestedNot(s, under) {
				return true
			}
		}
	case *gripql.HasExpression_Or:
		for _, s := range x.Or.Expressions {
			if c14NestedNot(s, under) {
				return true
			}
		}
	}
	return false
}

// VerifH_C14_filter: the filter document emitted for a has-expression selects
// exactly the scalar documents the core engine keeps.
func VerifH_C14_filter() {
	D := vParam("D", 1)
	val, present := c14Scalar("doc")
	data := map[string]interface{}{}
	if present {
		data["x"] = val
	}
	expr := c14Expr("h", D)
	t := &gdbi.BaseTraveler{Current: &gdbi.DataElement{ID: "v", Label: "L", Data: data, Loaded: true}}
	core := logic.MatchesHasExpression(t, expr)
	filter := convertHasExpression(expr, false)
	mongo := c14Match(filter, val, present)
	vReach("c14.filter.evaluated")
	vKnownFor("C14/double-negation-lost", c14NestedNot(expr, false), "C14.filter.equivalent")
	c14Regions(expr, val, present)
	vAssert("C14.filter.equivalent", core == mongo)
}
