package PKG

import (
	"fmt"
	"os"
	"runtime"
	"testing"
	"time"
)

// TestVerifReplay runs one harness natively on the assignment in VERIF_REPLAY.
func TestVerifReplay(t *testing.T) {
	vLoad()
	h := vHarnesses[vReplay.Harness]
	if h == nil {
		fmt.Println("VERIF-RESULT no-such-harness", vReplay.Harness)
		t.Fatal("no harness")
	}
	done := make(chan string, 1)
	go func() {
		defer func() {
			if r := recover(); r != nil {
				if _, ok := r.(vAssumeFailed); ok {
					done <- "assume-failed"
					return
				}
				done <- fmt.Sprintf("panic %v", r)
				return
			}
			done <- "returned"
		}()
		vBaseGoroutines = runtime.NumGoroutine()
		h()
	}()
	var res string
	select {
	case res = <-done:
	case <-time.After(20 * time.Second):
		res = "hang"
	}
	for _, k := range vKnownHit {
		fmt.Println("VERIF-KNOWN", k)
	}
	vEvalMu.Lock()
	for _, id := range vEvalOrder {
		fmt.Println("VERIF-EVAL", id)
	}
	vEvalMu.Unlock()
	for _, f := range vFailed {
		fmt.Println("VERIF-RESULT assert-failed", f)
	}
	fmt.Println("VERIF-RESULT", res)
	os.Stdout.Sync()
}
