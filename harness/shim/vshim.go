package PKG

// Harness shim. In symbolic mode (vcheck) every function below is intercepted
// by name and its body is ignored; natively (replay with `go test -overlay`)
// the bodies read the solver's assignment from the file named by VERIF_REPLAY.

import (
	"encoding/hex"
	"encoding/json"
	"fmt"
	"math"
	"os"
	"runtime"
	"strconv"
	"sync"
	"time"
)

type vReplayFile struct {
	Harness string            `json:"harness"`
	Values  map[string]string `json:"values"` // decimal for scalars, hex for strings
}

var vReplay *vReplayFile
var vSeen = map[string]int{}
var vFailed []string
var vEvalMu sync.Mutex
var vEvaluated = map[string]bool{}
var vEvalOrder []string
var vKnownHit []string
var vReached []string

var vHarnesses = map[string]func(){}

func vLoad() {
	if vReplay != nil {
		return
	}
	vReplay = &vReplayFile{Values: map[string]string{}}
	if p := os.Getenv("VERIF_REPLAY"); p != "" {
		b, err := os.ReadFile(p)
		if err != nil {
			panic(err)
		}
		if err := json.Unmarshal(b, vReplay); err != nil {
			panic(err)
		}
	}
}

func vName(name string) string {
	n := vSeen[name]
	vSeen[name] = n + 1
	if n == 0 {
		return name
	}
	return fmt.Sprintf("%s#%d", name, n)
}

func vGetU(name string) (uint64, bool) {
	vLoad()
	s, ok := vReplay.Values[name]
	if !ok {
		return 0, false
	}
	u, err := strconv.ParseUint(s, 10, 64)
	if err != nil {
		panic("bad replay value for " + name + ": " + s)
	}
	return u, true
}

func vNondetBool(name string) bool {
	u, _ := vGetU(vName(name))
	return u != 0
}

func vNondetInt(name string, lo, hi int) int {
	if lo == hi {
		return lo
	}
	u, ok := vGetU(vName(name))
	if !ok {
		return lo
	}
	return int(int64(u))
}

func vNondetByte(name string) byte     { u, _ := vGetU(vName(name)); return byte(u) }
func vNondetInt32(name string) int32   { u, _ := vGetU(vName(name)); return int32(u) }
func vNondetUint32(name string) uint32 { u, _ := vGetU(vName(name)); return uint32(u) }
func vNondetInt64(name string) int64   { u, _ := vGetU(vName(name)); return int64(u) }
func vNondetUint64(name string) uint64 { u, _ := vGetU(vName(name)); return u }
func vNondetFloat64(name string) float64 {
	u, _ := vGetU(vName(name))
	return math.Float64frombits(u)
}

func vChoice(name string, n int) int {
	if n <= 1 {
		return 0
	}
	u, _ := vGetU(vName(name))
	return int(u)
}

func vGetS(name string) string {
	vLoad()
	s, ok := vReplay.Values[name]
	if !ok {
		return ""
	}
	b, err := hex.DecodeString(s)
	if err != nil {
		panic("bad replay string for " + name)
	}
	return string(b)
}

func vNondetString(name string, maxLen int) string { return vGetS(vName(name)) }
func vNondetStringN(name string, n int) string {
	s := vGetS(vName(name))
	for len(s) < n {
		s += "\x00"
	}
	return s[:n]
}

type vAssumeFailed struct{}

func vAssume(c bool) {
	if !c {
		panic(vAssumeFailed{})
	}
}

func vAssert(id string, c bool) {
	vEvalMu.Lock()
	defer vEvalMu.Unlock()
	if !vEvaluated[id] {
		vEvaluated[id] = true
		vEvalOrder = append(vEvalOrder, id)
	}
	if !c {
		vFailed = append(vFailed, id)
	}
}

func vKnown(id string, c bool) {
	if c {
		vKnownHit = append(vKnownHit, id)
	}
}

// vKnownFor limits a known-finding region to the listed assertion ids (comma separated).
func vKnownFor(id string, c bool, asserts string) {
	if c {
		vKnownHit = append(vKnownHit, id)
	}
}

func vReach(id string)                    { vReached = append(vReached, id) }
func vObserve(name string, v interface{}) {}
func vSymbolic() bool                     { return false }

// vBaseGoroutines is the goroutine count when the harness starts (set by the replay test).
var vBaseGoroutines = -1

// vBlockedGoroutines (native): goroutines that exist beyond those present when the
// harness started, after giving them up to 3 s to finish.
func vBlockedGoroutines() int {
	if vBaseGoroutines < 0 {
		return -1
	}
	n := 0
	for i := 0; i < 300; i++ {
		n = runtime.NumGoroutine() - vBaseGoroutines
		if n <= 0 {
			return 0
		}
		time.Sleep(10 * time.Millisecond)
	}
	return n
}
func vYield()                             { time.Sleep(time.Millisecond) }
func vNote(s string)                      {}

func vParam(name string, def int) int {
	if s := os.Getenv("VERIF_PARAM_" + name); s != "" {
		n, err := strconv.Atoi(s)
		if err == nil {
			return n
		}
	}
	return def
}
