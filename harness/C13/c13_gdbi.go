package PKG

import (
	"context"
	"time"
)

func init() {
	vHarnesses["VerifH_C13_dual"] = VerifH_C13_dual
	vHarnesses["VerifH_C13_batcher"] = VerifH_C13_batcher
}

// VerifH_C13_dual: the two-stage lookup processor returns, for every request in
// order, the items its loader yields for it (0..2 each), deserialised, and
// closes its output.
func VerifH_C13_dual() {
	n := vChoice("n", vParam("N", 3)+1)
	req := make(chan ElementLookup, n+1)
	fan := make([]int, n)
	for i := 0; i < n; i++ {
		fan[i] = vChoice("fan"+string(rune('0'+i)), 3)
		req <- ElementLookup{ID: "r" + string(rune('0'+i))}
	}
	close(req)
	loader := func(r ElementLookup, load bool) chan interface{} {
		c := make(chan interface{}, 3)
		k := 0
		for i := 0; i < n; i++ {
			if r.ID == "r"+string(rune('0'+i)) {
				k = fan[i]
			}
		}
		for j := 0; j < k; j++ {
			c <- r.ID + "/" + string(rune('0'+j))
		}
		close(c)
		return c
	}
	deser := func(r ElementLookup, data interface{}) ElementLookup {
		r.Vertex = &Vertex{ID: data.(string)}
		return r
	}
	var got []string
	for o := range DualProcessor(context.Background(), req, true, loader, deser) {
		got = append(got, o.Vertex.ID)
	}
	var want []string
	for i := 0; i < n; i++ {
		for j := 0; j < fan[i]; j++ {
			want = append(want, "r"+string(rune('0'+i))+"/"+string(rune('0'+j)))
		}
	}
	vAssert("C13.dual.length", len(got) == len(want))
	for i := range want {
		if i < len(got) {
			vAssert("C13.dual.order", got[i] == want[i])
		}
	}
	vAssert("C13.dual.no-goroutine-left", vBlockedGoroutines() == 0)
}

// VerifH_C13_batcher: the lookup batcher emits the requests in order, in
// non-empty batches of at most batchSize, and closes its output.
func VerifH_C13_batcher() {
	B := 1 + vChoice("batch", vParam("B", 3))
	n := vChoice("n", B+3)
	req := make(chan ElementLookup, n+1)
	done := make(chan bool)
	go func() {
		for i := 0; i < n; i++ {
			req <- ElementLookup{ID: "r" + string(rune('0'+i))}
			vYield()
		}
		close(req)
		done <- true
	}()
	var got []string
	for b := range LookupBatcher(req, B, 4*time.Millisecond) {
		vAssert("C13.batcher.batch-size", len(b) >= 1 && len(b) <= B)
		for _, e := range b {
			got = append(got, e.ID)
		}
	}
	<-done
	vAssert("C13.batcher.length", len(got) == n)
	for i := 0; i < n && i < len(got); i++ {
		vAssert("C13.batcher.order", got[i] == "r"+string(rune('0'+i)))
	}
	vAssert("C13.batcher.no-goroutine-left", vBlockedGoroutines() == 0)
}
