package PKG

func init() {
	vHarnesses["VerifH_C13_mux"] = VerifH_C13_mux
}

func c13Pipeline(latency int) (chan interface{}, chan interface{}) {
	in := make(chan interface{})
	out := make(chan interface{})
	go func() {
		defer close(out)
		for i := range in {
			for k := 0; k < latency; k++ {
				vYield()
			}
			out <- i
		}
	}()
	return in, out
}

// VerifH_C13_mux: results come out in the order the inputs were put, whatever
// pipeline each went through and however slow that pipeline is.
func VerifH_C13_mux() {
	n := vChoice("n", vParam("N", 4)+1)
	m := NewChannelMux()
	in1, out1 := c13Pipeline(vChoice("lat1", 3))
	in2, out2 := c13Pipeline(vChoice("lat2", 3))
	c1, _ := m.AddPipeline(in1, out1)
	c2, _ := m.AddPipeline(in2, out2)
	vals := make([]int, n)
	go func() {
		for i := 0; i < n; i++ {
			vals[i] = vNondetInt("v"+string(rune('0'+i)), 0, 1000)
			if vChoice("pipe"+string(rune('0'+i)), 2) == 0 {
				m.Put(c1, vals[i])
			} else {
				m.Put(c2, vals[i])
			}
		}
		m.Close()
	}()
	var got []interface{}
	for o := range m.GetOutChannel() {
		got = append(got, o)
	}
	vAssert("C13.mux.length", len(got) == n)
	for i := 0; i < n && i < len(got); i++ {
		vAssert("C13.mux.order", got[i].(int) == vals[i])
	}
}
