package PKG

import (
	"github.com/bmeg/grip/gdbi"
)

func init() {
	vHarnesses["VerifH_C13_queue"] = VerifH_C13_queue
}

// VerifH_C13_queue: the jump queue is FIFO, loses and duplicates nothing, and
// closes its output after its input is closed.
func VerifH_C13_queue() {
	n := vChoice("n", vParam("N", 3)+1)
	q := New()
	counts := make([]uint32, n)
	for i := 0; i < n; i++ {
		counts[i] = vNondetUint32("c" + string(rune('0'+i)))
	}
	go func() {
		for i := 0; i < n; i++ {
			q.GetInput() <- &gdbi.BaseTraveler{Count: counts[i]}
		}
		close(q.GetInput())
	}()
	var out []gdbi.Traveler
	for t := range q.GetOutput() {
		out = append(out, t)
	}
	vAssert("C13.queue.length", len(out) == n)
	for i := 0; i < n && i < len(out); i++ {
		vAssert("C13.queue.order", out[i].GetCount() == counts[i])
	}
}
