package PKG

import (
	"github.com/bmeg/grip/gdbi"
)

func init() {
	vHarnesses["VerifH_C13_queue"] = VerifH_C13_queue
	vHarnesses["VerifH_C13_queue_backlog"] = VerifH_C13_queue_backlog
}

// VerifH_C13_queue: the jump queue is FIFO, loses and duplicates nothing, and
// closes its output after its input is closed.
func VerifH_C13_queue() {
	n := vChoice("n", vParam("N", 3)+1)
	q := New()
	counts := make([]uint32, n)
	for i := 0; i < n; i++ {
		counts[i] = vNondetUint32("c" + string(rune('0'+i)))
	}
	go func() {
		for i := 0; i < n; i++ {
			q.GetInput() <- &gdbi.BaseTraveler{Count: counts[i]}
		}
		close(q.GetInput())
	}()
	var out []gdbi.Traveler
	for t := range q.GetOutput() {
		out = append(out, t)
	}
	vAssert("C13.queue.length", len(out) == n)
	for i := 0; i < n && i < len(out); i++ {
		vAssert("C13.queue.order", out[i].GetCount() == counts[i])
	}
}

// VerifH_C13_queue_backlog: the queue with a backlog: a travelers are pushed, the
// consumer takes b of them and then stalls while c more are pushed (the output
// channel fills, the reader goroutine blocks and the internal slice grows past its
// initial capacity), then the input is closed and everything is drained. The
// output must be the input, in order. The initial capacity (1000) and the channel
// sizes (50) are executed scaled down (const_rewrite, chan_scale: stated in the
// evidence) so that the backlog crosses them with a dozen travelers.
func VerifH_C13_queue_backlog() {
	a := 1 + vChoice("first", 8)
	b := vChoice("taken", 4)
	c := vChoice("later", 14)
	if b > a {
		b = a
	}
	scale := vParam("NATIVE_SCALE", 1)
	a, b, c = a*scale, b*scale, c*scale
	q := New()
	var out []gdbi.Traveler
	next := uint32(0)
	done := make(chan bool)
	go func() {
		for i := 0; i < a; i++ {
			q.GetInput() <- &gdbi.BaseTraveler{Count: next}
			next++
		}
		done <- true
		for i := 0; i < c; i++ {
			q.GetInput() <- &gdbi.BaseTraveler{Count: next}
			next++
		}
		close(q.GetInput())
		done <- true
	}()
	<-done
	for i := 0; i < b; i++ {
		out = append(out, <-q.GetOutput())
	}
	// the consumer stalls until the producer is through
	<-done
	for t := range q.GetOutput() {
		out = append(out, t)
	}
	vReach("c13.queue.backlog-drained")
	vAssert("C13.queue.backlog-length", len(out) == a+c)
	ok := true
	for i := range out {
		if out[i] == nil || out[i].GetCount() != uint32(i) {
			ok = false
		}
	}
	vAssert("C13.queue.backlog-order", ok)
}
