package PKG

import (
	"github.com/bmeg/grip/gdbi"
)

func init() {
	vHarnesses["VerifH_C13_serializer"] = VerifH_C13_serializer
}

// VerifH_C13_serializer: the result serializer and deserializer worker pools
// output exactly the items they were given, once each, in input order, and
// close their output when the input is exhausted.
func VerifH_C13_serializer() {
	W := 1 + vChoice("workers", vParam("W", 3))
	n := vChoice("n", 2*W+2) // 0 .. 2W+1
	in := make(chan gdbi.Traveler, n+1)
	counts := make([]uint32, n)
	for i := 0; i < n; i++ {
		counts[i] = vNondetUint32("c" + string(rune('0'+i)))
		in <- &gdbi.BaseTraveler{Count: counts[i]}
	}
	close(in)
	var out []gdbi.Traveler
	for t := range UnmarshalStream(MarshalStream(in, W), W) {
		out = append(out, t)
	}
	vAssert("C13.serializer.length", len(out) == n)
	for i := 0; i < n && i < len(out); i++ {
		vAssert("C13.serializer.order", out[i].GetCount() == counts[i])
	}
	vAssert("C13.serializer.no-goroutine-left", vBlockedGoroutines() == 0)
}
