package PKG

import (
	"math"

	"github.com/bmeg/grip/gdbi"
)

func init() {
	vHarnesses["VerifH_C13_serializer"] = VerifH_C13_serializer
}

// VerifH_C13_serializer: the result serializer and deserializer worker pools
// output exactly the items they were given, once each, in input order, and
// close their output when the input is exhausted.
func VerifH_C13_serializer() {
	W := 1 + vChoice("workers", vParam("W", 3))
	n := vChoice("n", 2*W+2) // 0 .. 2W+1
	in := make(chan gdbi.Traveler, n+1)
	counts := make([]uint32, n)
	// one item (or none) carries an arbitrary double, including NaN and the
	// infinities, which encoding/json refuses to encode
	bad := vChoice("bad", n+1)
	x := vNondetFloat64("x")
	for i := 0; i < n; i++ {
		counts[i] = vNondetUint32("c" + string(rune('0'+i)))
		tr := &gdbi.BaseTraveler{Count: counts[i]}
		if i == bad {
			tr.Current = &gdbi.DataElement{ID: "v", Data: map[string]interface{}{"x": x}}
		}
		in <- tr
	}
	close(in)
	var out []gdbi.Traveler
	for t := range UnmarshalStream(MarshalStream(in, W), W) {
		out = append(out, t)
	}
	vAssert("C13.serializer.length", len(out) == n)
	vKnownFor("C13/serializer-blanks-unencodable-item", math.IsNaN(x) || math.IsInf(x, 0), "C13.serializer.unencodable-item-kept")
	for i := 0; i < n && i < len(out); i++ {
		if i == bad {
			// its slot is kept whatever happens to the payload
			vAssert("C13.serializer.unencodable-item-kept", out[i].GetCount() == counts[i])
			continue
		}
		vAssert("C13.serializer.order", out[i].GetCount() == counts[i])
	}
	vAssert("C13.serializer.no-goroutine-left", vBlockedGoroutines() == 0)
}
