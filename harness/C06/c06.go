package PKG

import (
	"github.com/bmeg/grip/gdbi"
	"github.com/bmeg/grip/gripql"
	"google.golang.org/protobuf/types/known/structpb"
)

func init() {
	vHarnesses["VerifH_C06_query"] = VerifH_C06_query
	vHarnesses["VerifH_C06_optimizer"] = VerifH_C06_optimizer
	vHarnesses["VerifH_C06_marks"] = VerifH_C06_marks
}

// c06List: list arguments a client can send: absent, empty, one or two strings
// (symbolic within a small alphabet), or a list holding a non-string.
var c06Level = 2

// c06Keys: field-name lists (concrete names: paths are parsed by the jsonpath tokenizer).
func c06Keys(name string) *structpb.ListValue {
	switch vChoice(name+".keys", 5) {
	case 0:
		return &structpb.ListValue{}
	case 1:
		return vList("x")
	case 2:
		return vList("y", "x")
	case 3:
		return vList("$m.x", "_gid")
	default:
		return &structpb.ListValue{Values: []*structpb.Value{structpb.NewNumberValue(1), structpb.NewNullValue(), {}}}
	}
}

func c06List(name string, lo, hi byte) *structpb.ListValue {
	if c06Level < 2 {
		if vChoice(name+".list", 2) == 0 {
			return &structpb.ListValue{}
		}
		return vList(vSymID(name+".a", lo, hi))
	}
	// a oneof member that is present on the wire is a non-nil message with non-nil members
	switch vChoice(name+".list", 4) {
	case 0:
		return &structpb.ListValue{}
	case 1:
		return vList(vSymID(name+".a", lo, hi))
	case 2:
		return vList(vSymID(name+".a", lo, hi), vSymID(name+".b", lo, hi))
	default:
		return &structpb.ListValue{Values: []*structpb.Value{structpb.NewNumberValue(1), structpb.NewNullValue(), {}}}
	}
}

// c06Value: condition / set values of every JSON kind, or no value at all.
func c06Value(name string) *structpb.Value {
	if c06Level < 2 {
		switch vChoice(name+".val", 4) {
		case 0:
			return nil
		case 1:
			return structpb.NewNumberValue(vFinite(name + ".n"))
		case 2:
			return structpb.NewStringValue(vSymID(name+".s", 'a', 'q'))
		default:
			return structpb.NewListValue(vList(vSymID(name+".ls", 'a', 'b')))
		}
	}
	switch vChoice(name+".val", 7) {
	case 0:
		return nil
	case 1:
		return structpb.NewNullValue()
	case 2:
		return structpb.NewNumberValue(vFinite(name + ".n"))
	case 3:
		return structpb.NewStringValue(vSymID(name+".s", 'a', 'q'))
	case 4:
		return structpb.NewBoolValue(vNondetBool(name + ".b"))
	case 5:
		n := vChoice(name+".len", 2)
		l := &structpb.ListValue{}
		for i := 0; i < n; i++ {
			if vChoice(name+".ek", 2) == 0 {
				l.Values = append(l.Values, structpb.NewNumberValue(vFinite(name+".ln")))
			} else {
				l.Values = append(l.Values, structpb.NewStringValue(vSymID(name+".ls", 'a', 'b')))
			}
		}
		return structpb.NewListValue(l)
	default:
		return structpb.NewStructValue(&structpb.Struct{Fields: map[string]*structpb.Value{"k": structpb.NewNumberValue(1)}})
	}
}

func c06Key(name string) string {
	if c06Level < 2 {
		return []string{"x", "_gid", "$u.x"}[vChoice(name+".key", 3)]
	}
	return []string{"x", "_gid", "$m.x", "$u.x", "", "x.k", "x[0]"}[vChoice(name+".key", 7)]
}

func c06Op(name string) gripql.Condition {
	if c06Level < 2 {
		return []gripql.Condition{gripql.Condition_EQ, gripql.Condition_GT, gripql.Condition_WITHIN, gripql.Condition_CONTAINS, 13}[vChoice(name+".op", 5)]
	}
	return gripql.Condition(vChoice(name+".op", 14))
}

// c06Leaf is a reduced condition used inside and()/not() so that nesting does not square the grid.
func c06Leaf(name string) *gripql.HasExpression {
	key := []string{"x", "_gid"}[vChoice(name+".key", 2)]
	op := []gripql.Condition{gripql.Condition_EQ, gripql.Condition_WITHIN, gripql.Condition_GT}[vChoice(name+".op", 3)]
	var v *structpb.Value
	switch vChoice(name+".val", 3) {
	case 0:
	case 1:
		v = structpb.NewStringValue(vSymID(name+".s", 'a', 'b'))
	default:
		v = structpb.NewListValue(vList(vSymID(name+".ls", 'a', 'b')))
	}
	return &gripql.HasExpression{Expression: &gripql.HasExpression_Condition{Condition: &gripql.HasCondition{Key: key, Value: v, Condition: op}}}
}

func c06Has(name string, depth int) *gripql.HasExpression {
	if c06Level < 2 {
		if vChoice(name+".hk", 2) == 0 {
			return c06Leaf(name)
		}
		return &gripql.HasExpression{}
	}
	n := 2
	if depth > 0 {
		n = 6
	}
	switch vChoice(name+".hk", n) {
	case 0:
		return &gripql.HasExpression{Expression: &gripql.HasExpression_Condition{Condition: &gripql.HasCondition{
			Key: c06Key(name), Value: c06Value(name), Condition: c06Op(name)}}}
	case 1:
		return &gripql.HasExpression{} // no expression set
	case 2:
		return &gripql.HasExpression{Expression: &gripql.HasExpression_Not{Not: c06Leaf(name + "n")}}
	case 3:
		return &gripql.HasExpression{Expression: &gripql.HasExpression_And{And: &gripql.HasExpressionList{Expressions: []*gripql.HasExpression{c06Leaf(name + "a"), c06Leaf(name + "b")}}}}
	case 4:
		return &gripql.HasExpression{Expression: &gripql.HasExpression_Or{Or: &gripql.HasExpressionList{}}}
	default:
		return &gripql.HasExpression{Expression: &gripql.HasExpression_Not{Not: &gripql.HasExpression{}}} // not() of an empty expression
	}
}

func c06Agg(name string, reduced bool) *gripql.Aggregate {
	a := &gripql.Aggregate{Name: []string{"n1", "n2"}[vChoice(name+".name", 2)]}
	field := "x"
	if !reduced {
		field = []string{"x", "y", ""}[vChoice(name+".field", 3)]
	}
	switch vChoice(name+".agg", 7) {
	case 0:
		a.Aggregation = &gripql.Aggregate_Term{Term: &gripql.TermAggregation{Field: field, Size: vNondetUint32(name + ".size")}}
	case 1:
		a.Aggregation = &gripql.Aggregate_Histogram{Histogram: &gripql.HistogramAggregation{Field: field, Interval: []uint32{0, 1, 3}[vChoice(name+".interval", 3)]}}
	case 2:
		a.Aggregation = &gripql.Aggregate_Field{Field: &gripql.FieldAggregation{Field: field}}
	case 3:
		a.Aggregation = &gripql.Aggregate_Type{Type: &gripql.TypeAggregation{Field: field}}
	case 4:
		a.Aggregation = &gripql.Aggregate_Count{Count: &gripql.CountAggregation{}}
	case 5:
		a.Aggregation = &gripql.Aggregate_Term{Term: &gripql.TermAggregation{}} // arm set, message empty
	default:
		// no aggregation arm
	}
	return a
}

// c06Stmt: one statement out of every arm of the oneof, with arbitrary arguments.
// fam selects one representative per step family (quick tier) or every arm.
func c06Stmt(name string, full bool) *gripql.GraphStatement {
	arms := 34
	if !full {
		arms = 18
	}
	k := vChoice(name+".arm", arms)
	if !full {
		k = []int{0, 2, 4, 6, 9, 12, 13, 14, 16, 17, 18, 19, 22, 24, 25, 27, 29, 33}[k]
	}
	switch k {
	case 0:
		return &gripql.GraphStatement{Statement: &gripql.GraphStatement_V{V: c06List(name, 'a', 'c')}}
	case 1:
		return &gripql.GraphStatement{Statement: &gripql.GraphStatement_E{E: c06List(name, 'e', 'f')}}
	case 2:
		return &gripql.GraphStatement{Statement: &gripql.GraphStatement_Out{Out: c06List(name, 'A', 'B')}}
	case 3:
		return &gripql.GraphStatement{Statement: &gripql.GraphStatement_In{In: c06List(name, 'A', 'B')}}
	case 4:
		return &gripql.GraphStatement{Statement: &gripql.GraphStatement_Both{Both: c06List(name, 'A', 'B')}}
	case 5:
		return &gripql.GraphStatement{Statement: &gripql.GraphStatement_OutE{OutE: c06List(name, 'A', 'B')}}
	case 6:
		return &gripql.GraphStatement{Statement: &gripql.GraphStatement_InE{InE: c06List(name, 'A', 'B')}}
	case 7:
		return &gripql.GraphStatement{Statement: &gripql.GraphStatement_BothE{BothE: c06List(name, 'A', 'B')}}
	case 8:
		return &gripql.GraphStatement{Statement: &gripql.GraphStatement_InNull{InNull: c06List(name, 'A', 'B')}}
	case 9:
		return &gripql.GraphStatement{Statement: &gripql.GraphStatement_OutNull{OutNull: c06List(name, 'A', 'B')}}
	case 10:
		return &gripql.GraphStatement{Statement: &gripql.GraphStatement_InENull{InENull: c06List(name, 'A', 'B')}}
	case 11:
		return &gripql.GraphStatement{Statement: &gripql.GraphStatement_OutENull{OutENull: c06List(name, 'A', 'B')}}
	case 12:
		return &gripql.GraphStatement{Statement: &gripql.GraphStatement_As{As: []string{"m", "u", "", "_x", "__current__"}[vChoice(name+".mark", 5)]}}
	case 13:
		marks := [][]string{nil, {"m"}, {"u"}, {"m", "u"}, {"m", "m"}}[vChoice(name+".marks", 5)]
		sel := &gripql.SelectStatement{Marks: marks}
		return &gripql.GraphStatement{Statement: &gripql.GraphStatement_Select{Select: sel}}
	case 14:
		return &gripql.GraphStatement{Statement: &gripql.GraphStatement_Limit{Limit: vNondetUint32(name + ".limit")}}
	case 15:
		return &gripql.GraphStatement{Statement: &gripql.GraphStatement_Skip{Skip: vNondetUint32(name + ".skip")}}
	case 16:
		r := &gripql.Range{Start: vNondetInt32(name + ".start"), Stop: vNondetInt32(name + ".stop")}
		return &gripql.GraphStatement{Statement: &gripql.GraphStatement_Range{Range: r}}
	case 17:
		return &gripql.GraphStatement{Statement: &gripql.GraphStatement_Has{Has: c06Has(name, 1)}}
	case 18:
		return &gripql.GraphStatement{Statement: &gripql.GraphStatement_HasLabel{HasLabel: c06List(name, 'A', 'B')}}
	case 19:
		return &gripql.GraphStatement{Statement: &gripql.GraphStatement_HasKey{HasKey: c06Keys(name)}}
	case 20:
		return &gripql.GraphStatement{Statement: &gripql.GraphStatement_HasId{HasId: c06List(name, 'a', 'c')}}
	case 21:
		return &gripql.GraphStatement{Statement: &gripql.GraphStatement_Distinct{Distinct: c06Keys(name)}}
	case 22:
		return &gripql.GraphStatement{Statement: &gripql.GraphStatement_Fields{Fields: c06Keys(name)}}
	case 23:
		return &gripql.GraphStatement{Statement: &gripql.GraphStatement_Fields{Fields: vList([]string{"-x", "-_gid", "x.k", "$m.x", "-"}[vChoice(name+".f", 5)])}}
	case 24:
		return &gripql.GraphStatement{Statement: &gripql.GraphStatement_Unwind{Unwind: c06Key(name)}}
	case 25:
		return &gripql.GraphStatement{Statement: &gripql.GraphStatement_Count{}}
	case 26:
		var aggs *gripql.Aggregations
		switch vChoice(name+".naggs", 3) + 1 {
		case 1:
			aggs = &gripql.Aggregations{}
		case 2:
			aggs = &gripql.Aggregations{Aggregations: []*gripql.Aggregate{c06Agg(name+"a", c06Level < 2)}}
		default:
			second := &gripql.Aggregate{Name: "n1", Aggregation: &gripql.Aggregate_Count{Count: &gripql.CountAggregation{}}}
			if c06Level >= 2 {
				second = c06Agg(name+"b", true)
			}
			aggs = &gripql.Aggregations{Aggregations: []*gripql.Aggregate{c06Agg(name+"a", c06Level < 2), second}}
		}
		return &gripql.GraphStatement{Statement: &gripql.GraphStatement_Aggregate{Aggregate: aggs}}
	case 27:
		return &gripql.GraphStatement{Statement: &gripql.GraphStatement_Render{Render: c06Value(name)}}
	case 28:
		return &gripql.GraphStatement{Statement: &gripql.GraphStatement_Path{Path: c06Keys(name)}}
	case 29:
		s := &gripql.Set{Key: c06Key(name), Value: c06Value(name)}
		return &gripql.GraphStatement{Statement: &gripql.GraphStatement_Set{Set: s}}
	case 30:
		s := &gripql.Increment{Key: c06Key(name), Value: vNondetInt32(name + ".inc")}
		return &gripql.GraphStatement{Statement: &gripql.GraphStatement_Increment{Increment: s}}
	case 31:
		return &gripql.GraphStatement{Statement: &gripql.GraphStatement_Mark{Mark: []string{"k", ""}[vChoice(name+".jm", 2)]}}
	case 32:
		j := &gripql.Jump{Mark: []string{"k", "zz"}[vChoice(name+".jt", 2)], Emit: vNondetBool(name + ".emit")}
		if vChoice(name+".jexpr", 2) == 1 {
			j.Expression = c06Has(name, 0)
		}
		return &gripql.GraphStatement{Statement: &gripql.GraphStatement_Jump{Jump: j}}
	default:
		return &gripql.GraphStatement{} // no statement at all
	}
}

// c06Graph: empty, or one of two small graphs with symbolic payloads (dangling
// endpoint, self loop, properties of every kind).
func c06Graph() *vGraph { return c06GraphN(vChoice("graph", 3)) }

func c06GraphN(k int) *vGraph {
	g := &vGraph{honourLoad: true}
	switch k {
	case 0:
	case 1:
		g.vs = []*gdbi.Vertex{
			{ID: "a", Label: "A", Data: map[string]interface{}{"x": 2.5}, Loaded: true},
			{ID: "b", Label: "B", Data: map[string]interface{}{"x": "p"}, Loaded: true},
		}
		g.es = []*gdbi.Edge{
			{ID: "e", From: "a", To: "b", Label: "A", Data: map[string]interface{}{"x": -1.0}, Loaded: true},
			{ID: "f", From: "b", To: "c", Label: "B", Data: map[string]interface{}{}, Loaded: true},
		}
	default:
		g.vs = []*gdbi.Vertex{
			{ID: "a", Label: "A", Data: map[string]interface{}{"x": []interface{}{7.0, "p"}}, Loaded: true},
			{ID: "b", Label: "A", Data: map[string]interface{}{"x": map[string]interface{}{"k": true}}, Loaded: true},
			{ID: "c", Label: "B", Data: map[string]interface{}{}, Loaded: true},
		}
		g.es = []*gdbi.Edge{
			{ID: "e", From: "a", To: "a", Label: "A", Data: map[string]interface{}{}, Loaded: true},
		}
	}
	return g
}

// VerifH_C06_query: whatever statements arrive, compile + run + convert return
// rows or an error; no path ends in a panic (of any goroutine) or a deadlock.
func VerifH_C06_query() {
	N := vParam("N", 2) // statements after the start
	full := vParam("FULL", 0) == 1
	var stmts []*gripql.GraphStatement
	var g *vGraph
	n := vChoice("len", N+1)
	switch n {
	case 0:
		// anything as the only statement: rejected cleanly unless it is V/E
		c06Level = 2
		g = c06Graph()
		stmts = append(stmts, c06Stmt("s", true))
	case 1:
		// every arm with the full argument grid
		c06Level = 1
		g = c06Graph()
		if vChoice("start", 2) == 0 {
			stmts = append(stmts, &gripql.GraphStatement{Statement: &gripql.GraphStatement_V{V: c06List("s", 'a', 'c')}})
		} else {
			stmts = append(stmts, &gripql.GraphStatement{Statement: &gripql.GraphStatement_E{E: c06List("s", 'e', 'f')}})
		}
		c06Level = 2
		stmts = append(stmts, c06Stmt("q0", true))
	default:
		// sequences: reduced argument grid, one graph
		c06Level = 1
		g = c06GraphN(1)
		if vChoice("start", 2) == 0 {
			stmts = append(stmts, sV())
		} else {
			stmts = append(stmts, sE())
		}
		for i := 0; i < n; i++ {
			stmts = append(stmts, c06Stmt("q"+string(rune('0'+i)), full))
		}
	}
	g.compiler = func(g *vGraph) gdbi.Compiler { return NewCompiler(g, IndexStartOptimize) }
	pipe, err := g.Compiler().Compile(stmts, nil)
	if err != nil {
		vReach("c06.rejected")
		return
	}
	rows := vRunPipe(g, pipe, 2)
	vReach("c06.ran")
	vAssert("C06.query.returns", len(rows) >= 0)
}

// VerifH_C06_optimizer: the index-start rewrite on arbitrary leading filters.
func VerifH_C06_optimizer() {
	c06Level = 2
	stmts := []*gripql.GraphStatement{{Statement: &gripql.GraphStatement_V{V: c06List("s", 'a', 'c')}}}
	n := vChoice("len", 3)
	if n >= 2 {
		c06Level = 1
	}
	for i := 0; i < n; i++ {
		name := "q" + string(rune('0'+i))
		switch vChoice(name+".k", 4) {
		case 0:
			stmts = append(stmts, &gripql.GraphStatement{Statement: &gripql.GraphStatement_HasLabel{HasLabel: c06List(name, 'A', 'B')}})
		case 1:
			stmts = append(stmts, &gripql.GraphStatement{Statement: &gripql.GraphStatement_HasId{HasId: c06List(name, 'a', 'c')}})
		case 2:
			stmts = append(stmts, &gripql.GraphStatement{Statement: &gripql.GraphStatement_Has{Has: c06Has(name, 1)}})
		default:
			stmts = append(stmts, sOut())
		}
	}
	out := IndexStartOptimize(stmts)
	vAssert("C06.optimizer.returns", len(out) >= 0)
}

// VerifH_C06_marks: longer sequences over the steps that create rows without an
// element and marks that may be unset or unloaded (outNull/inNull, edge steps,
// as, select of one or two marks, path), on a back end that honours the load
// hint: nothing ends in a panic or a deadlock, whatever is selected.
func VerifH_C06_marks() {
	N := vParam("M", 3)
	g := c06GraphN(1)
	var stmts []*gripql.GraphStatement
	if vChoice("start", 2) == 0 {
		stmts = append(stmts, sV())
	} else {
		stmts = append(stmts, sE())
	}
	n := 1 + vChoice("len", N)
	for i := 0; i < n; i++ {
		name := "q" + string(rune('0'+i))
		var s *gripql.GraphStatement
		switch vChoice(name, 10) {
		case 0:
			s = &gripql.GraphStatement{Statement: &gripql.GraphStatement_OutNull{OutNull: vList()}}
		case 1:
			s = &gripql.GraphStatement{Statement: &gripql.GraphStatement_InNull{InNull: vList("zz")}}
		case 2:
			s = &gripql.GraphStatement{Statement: &gripql.GraphStatement_OutENull{OutENull: vList("zz")}}
		case 3:
			s = sOutE()
		case 4:
			s = sOut()
		case 5:
			s = sAs("m")
		case 6:
			s = sAs("u")
		case 7:
			s = sSelect("m")
		case 8:
			s = sSelect("m", "u")
		default:
			s = sInE()
		}
		stmts = append(stmts, s)
	}
	g.compiler = func(g *vGraph) gdbi.Compiler { return NewCompiler(g, IndexStartOptimize) }
	pipe, err := g.Compiler().Compile(stmts, nil)
	if err != nil {
		vReach("c06.marks.rejected")
		return
	}
	rows := vRunPipe(g, pipe, 2)
	vReach("c06.marks.ran")
	vAssert("C06.marks.returns", len(rows) >= 0)
}
