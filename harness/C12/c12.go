package PKG

import (
	"github.com/bmeg/grip/gdbi"
	"github.com/bmeg/grip/gripql"
	"google.golang.org/protobuf/types/known/structpb"
)

func init() {
	vHarnesses["VerifH_C12_loop"] = VerifH_C12_loop
	vHarnesses["VerifH_C12_twojumps"] = VerifH_C12_twojumps
	vHarnesses["VerifH_C12_moving"] = VerifH_C12_moving
	vHarnesses["VerifH_C12_twoloops"] = VerifH_C12_twoloops
}

// VerifH_C12_loop: V().set(c,c0).mark(m).increment(c,1).jump(m, lt(c,D), emit)
// returns, for every start vertex, one row per pass through the loop body when
// emit is on (passes = number of increments until c >= D, at least one), nothing
// when emit is off, and the result stream is closed - under the cooperative
// schedule and under every schedule within the deviation budget.
func VerifH_C12_loop() {
	K := 1 + vChoice("vertices", vParam("K", 2))
	D := 1 + vChoice("depth", vParam("D", 2))
	emit := vChoice("emit", 2) == 1
	g := &vGraph{honourLoad: false}
	c0 := make([]int, K)
	for i := 0; i < K; i++ {
		if vParam("C0", 1) == 1 {
			c0[i] = vChoice("c0."+string(rune('0'+i)), D+1) // initial counter 0..D
		}
		g.vs = append(g.vs, &gdbi.Vertex{ID: "v" + string(rune('0'+i)), Label: "L", Data: map[string]interface{}{"c": float64(c0[i])}, Loaded: true})
	}
	g.compiler = func(g *vGraph) gdbi.Compiler { return NewCompiler(g, IndexStartOptimize) }
	stmts := []*gripql.GraphStatement{
		sV(),
		{Statement: &gripql.GraphStatement_Mark{Mark: "m"}},
		{Statement: &gripql.GraphStatement_Increment{Increment: &gripql.Increment{Key: "c", Value: 1}}},
		{Statement: &gripql.GraphStatement_Jump{Jump: &gripql.Jump{Mark: "m", Emit: emit,
			Expression: &gripql.HasExpression{Expression: &gripql.HasExpression_Condition{Condition: &gripql.HasCondition{Key: "c", Condition: gripql.Condition_LT, Value: structpb.NewNumberValue(float64(D))}}}}}},
	}
	pipe, err := g.Compiler().Compile(stmts, nil)
	vAssert("C12.compiles", err == nil)
	if err != nil {
		return
	}
	rows := vRunPipe(g, pipe, 4)
	vReach("c12.closed")
	want := 0
	for i := 0; i < K; i++ {
		// passes: increment, then re-enter while c < D
		passes := 1
		c := c0[i] + 1
		for c < D {
			passes++
			c++
		}
		if emit {
			want += passes
		}
	}
	vAssert("C12.row-count", len(rows) == want)
	// every emitted row is one of the start vertices with a counter it really had after a pass
	for _, r := range rows {
		v := r.GetVertex()
		ok := false
		for i := 0; i < K; i++ {
			if v != nil && v.Gid == "v"+string(rune('0'+i)) {
				cv, isNum := v.Data.AsMap()["c"].(float64)
				if isNum && int(cv) > c0[i] && (int(cv) <= D || int(cv) == c0[i]+1) {
					ok = true
				}
			}
		}
		vAssert("C12.row-is-a-pass", ok)
	}
	vAssert("C12.no-goroutine-left", vBlockedGoroutines() == 0)
}

// VerifH_C12_twojumps: two jumps feed one mark:
// V().mark(m).increment(c,1).jump(m, gt(c,100), emit).jump(m, lt(c,D), emit2).
// The first jump never fires but takes part in the shutdown protocol (the mark
// waits for the echo of its signal from every jump); the second one drives the
// loop. Rows: one per pass when emit2 is on, none otherwise.
func VerifH_C12_twojumps() {
	K := 1 + vChoice("vertices", vParam("K", 1))
	D := 1 + vChoice("depth", vParam("D", 3))
	emit := vChoice("emit", 2) == 1
	g := &vGraph{honourLoad: false}
	for i := 0; i < K; i++ {
		g.vs = append(g.vs, &gdbi.Vertex{ID: "v" + string(rune('0'+i)), Label: "L", Data: map[string]interface{}{"c": float64(0)}, Loaded: true})
	}
	g.compiler = func(g *vGraph) gdbi.Compiler { return NewCompiler(g, IndexStartOptimize) }
	cond := func(op gripql.Condition, v float64) *gripql.HasExpression {
		return &gripql.HasExpression{Expression: &gripql.HasExpression_Condition{Condition: &gripql.HasCondition{Key: "c", Condition: op, Value: structpb.NewNumberValue(v)}}}
	}
	stmts := []*gripql.GraphStatement{
		sV(),
		{Statement: &gripql.GraphStatement_Mark{Mark: "m"}},
		{Statement: &gripql.GraphStatement_Increment{Increment: &gripql.Increment{Key: "c", Value: 1}}},
		{Statement: &gripql.GraphStatement_Jump{Jump: &gripql.Jump{Mark: "m", Emit: true, Expression: cond(gripql.Condition_GT, 100)}}},
		{Statement: &gripql.GraphStatement_Jump{Jump: &gripql.Jump{Mark: "m", Emit: emit, Expression: cond(gripql.Condition_LT, float64(D))}}},
	}
	pipe, err := g.Compiler().Compile(stmts, nil)
	vAssert("C12.two.compiles", err == nil)
	if err != nil {
		return
	}
	rows := vRunPipe(g, pipe, 4)
	vReach("c12.two.closed")
	want := 0
	if emit {
		want = K * D
	}
	vAssert("C12.two.row-count", len(rows) == want)
	// each start vertex is emitted once with every counter value 1..D
	for i := 0; i < K; i++ {
		for c := 1; emit && c <= D; c++ {
			n := 0
			for _, r := range rows {
				v := r.GetVertex()
				if v != nil && v.Gid == "v"+string(rune('0'+i)) {
					if cv, isNum := v.Data.AsMap()["c"].(float64); isNum && int(cv) == c {
						n++
					}
				}
			}
			vAssert("C12.two.once-per-pass", n == 1)
		}
	}
	vAssert("C12.two.no-goroutine-left", vBlockedGoroutines() == 0)
}

// VerifH_C12_moving: the loop body moves: V(start).as(a).set($a.c,0).mark(m).out()
// .increment($a.c,1).jump(m, lt($a.c,D), emit) on a directed 2-cycle. The counter
// lives in the mark namespace, so it survives the move; a traveler makes exactly D
// passes and sits on start+p (mod 2) after pass p.
func VerifH_C12_moving() {
	K := 1 + vChoice("starts", vParam("K", 2))
	D := 1 + vChoice("depth", vParam("D", 2))
	emit := vChoice("emit", 2) == 1
	g := &vGraph{honourLoad: false}
	for i := 0; i < 2; i++ {
		g.vs = append(g.vs, &gdbi.Vertex{ID: "v" + string(rune('0'+i)), Label: "L", Data: map[string]interface{}{}, Loaded: true})
	}
	g.es = []*gdbi.Edge{
		{ID: "e0", From: "v0", To: "v1", Label: "E", Data: map[string]interface{}{}, Loaded: true},
		{ID: "e1", From: "v1", To: "v0", Label: "E", Data: map[string]interface{}{}, Loaded: true},
	}
	g.compiler = func(g *vGraph) gdbi.Compiler { return NewCompiler(g, IndexStartOptimize) }
	start := sV("v0")
	if K == 2 {
		start = sV()
	}
	stmts := []*gripql.GraphStatement{
		start,
		sAs("a"),
		{Statement: &gripql.GraphStatement_Set{Set: &gripql.Set{Key: "$a.c", Value: structpb.NewNumberValue(0)}}},
		{Statement: &gripql.GraphStatement_Mark{Mark: "m"}},
		sOut(),
		{Statement: &gripql.GraphStatement_Increment{Increment: &gripql.Increment{Key: "$a.c", Value: 1}}},
		{Statement: &gripql.GraphStatement_Jump{Jump: &gripql.Jump{Mark: "m", Emit: emit,
			Expression: &gripql.HasExpression{Expression: &gripql.HasExpression_Condition{Condition: &gripql.HasCondition{Key: "$a.c", Condition: gripql.Condition_LT, Value: structpb.NewNumberValue(float64(D))}}}}}},
	}
	pipe, err := g.Compiler().Compile(stmts, nil)
	vAssert("C12.moving.compiles", err == nil)
	if err != nil {
		return
	}
	rows := vRunPipe(g, pipe, 4)
	vReach("c12.moving.closed")
	want := 0
	if emit {
		want = K * D
	}
	vAssert("C12.moving.row-count", len(rows) == want)
	// per start vertex and pass: one row on the vertex reached after that many moves
	for s := 0; emit && s < K; s++ {
		for p := 1; p <= D; p++ {
			id := "v" + string(rune('0'+(s+p)%2))
			n := 0
			for _, r := range rows {
				if v := r.GetVertex(); v != nil && v.Gid == id {
					n++
				}
			}
			// rows on this vertex: every (start, pass) pair that lands on it
			exp := 0
			for s2 := 0; s2 < K; s2++ {
				for p2 := 1; p2 <= D; p2++ {
					if (s2+p2)%2 == (s+p)%2 {
						exp++
					}
				}
			}
			vAssert("C12.moving.rows-per-vertex", n == exp)
		}
	}
	vAssert("C12.moving.no-goroutine-left", vBlockedGoroutines() == 0)
}

// VerifH_C12_twoloops: two loops in sequence, each with its own mark:
// V(v0).as(c).set($c.n,0).mark(A).increment($c.n,1).jump(A, lt($c.n,D1), emit)
// .mark(B).increment($c.n,1).jump(B, lt($c.n,D2), emit).render($c.n).
// The rows are those of the iterative definition (simulated below).
func VerifH_C12_twoloops() {
	D1 := 1 + vChoice("depth1", vParam("D1", 2))
	D2 := D1 + 1 + vChoice("depth2", vParam("D2", 2))
	g := &vGraph{honourLoad: false}
	g.vs = append(g.vs, &gdbi.Vertex{ID: "v0", Label: "L", Data: map[string]interface{}{}, Loaded: true})
	g.compiler = func(g *vGraph) gdbi.Compiler { return NewCompiler(g, IndexStartOptimize) }
	cond := func(d int) *gripql.HasExpression {
		return &gripql.HasExpression{Expression: &gripql.HasExpression_Condition{Condition: &gripql.HasCondition{Key: "$c.n", Condition: gripql.Condition_LT, Value: structpb.NewNumberValue(float64(d))}}}
	}
	inc := &gripql.GraphStatement{Statement: &gripql.GraphStatement_Increment{Increment: &gripql.Increment{Key: "$c.n", Value: 1}}}
	stmts := []*gripql.GraphStatement{
		sV("v0"),
		sAs("c"),
		{Statement: &gripql.GraphStatement_Set{Set: &gripql.Set{Key: "$c.n", Value: structpb.NewNumberValue(0)}}},
		{Statement: &gripql.GraphStatement_Mark{Mark: "A"}},
		inc,
		{Statement: &gripql.GraphStatement_Jump{Jump: &gripql.Jump{Mark: "A", Emit: true, Expression: cond(D1)}}},
		{Statement: &gripql.GraphStatement_Mark{Mark: "B"}},
		inc,
		{Statement: &gripql.GraphStatement_Jump{Jump: &gripql.Jump{Mark: "B", Emit: true, Expression: cond(D2)}}},
		{Statement: &gripql.GraphStatement_Render{Render: structpb.NewStringValue("$c.n")}},
	}
	pipe, err := g.Compiler().Compile(stmts, nil)
	vAssert("C12.twoloops.compiles", err == nil)
	if err != nil {
		return
	}
	rows := vRunPipe(g, pipe, 4)
	vReach("c12.twoloops.closed")
	// iterative definition: loop A emits n = 1..D1; each of those runs loop B
	var want []int
	for a := 1; a <= D1; a++ {
		for n := a + 1; ; n++ {
			want = append(want, n)
			if !(n < D2) {
				break
			}
		}
	}
	vAssert("C12.twoloops.row-count", len(rows) == len(want))
	for v := 2; v <= D2+1; v++ {
		nw, ng := 0, 0
		for _, w := range want {
			if w == v {
				nw++
			}
		}
		for _, r := range rows {
			if f, ok := r.GetRender().AsInterface().(float64); ok && int(f) == v {
				ng++
			}
		}
		vAssert("C12.twoloops.rows-per-value", nw == ng)
	}
	vAssert("C12.twoloops.no-goroutine-left", vBlockedGoroutines() == 0)
}
