package PKG

import (
	"math"

	"github.com/bmeg/grip/gdbi"
	"github.com/bmeg/grip/gripql"
)

func init() {
	vHarnesses["VerifH_C19_aggregate"] = VerifH_C19_aggregate
	vHarnesses["VerifH_C19_histogram"] = VerifH_C19_histogram
}

type c19Row struct {
	name string
	key  interface{}
	val  float64
}

func c19Rows(res []*gripql.QueryResult) []c19Row {
	var out []c19Row
	for _, r := range res {
		a := r.GetAggregations()
		if a == nil {
			out = append(out, c19Row{name: "<not an aggregation row>"})
			continue
		}
		out = append(out, c19Row{name: a.Name, key: a.Key.AsInterface(), val: a.Value})
	}
	return out
}

func c19Named(rows []c19Row, name string) []c19Row {
	var out []c19Row
	for _, r := range rows {
		if r.name == name {
			out = append(out, r)
		}
	}
	return out
}

func c19IsScalar(v interface{}) bool {
	switch v.(type) {
	case float64, string, bool:
		return true
	}
	return false
}

func c19TypeName(v interface{}) string {
	switch v.(type) {
	case string:
		return "STRING"
	case float64:
		return "NUMERIC"
	case bool:
		return "BOOL"
	}
	return "UNKNOWN"
}

// c19Values: n rows, each with property x of a symbolic kind and payload.
func c19Values(n int, kinds int) []interface{} {
	vals := make([]interface{}, n)
	for i := 0; i < n; i++ {
		name := "r" + string(rune('0'+i))
		switch vChoice(name+".kind", kinds) {
		case 0:
			vals[i] = vFinite(name + ".n")
		case 1:
			vals[i] = vSymID(name+".s", 'p', 'q')
		case 2:
			vals[i] = nil // missing
		case 3:
			vals[i] = vNondetBool(name + ".b")
		case 4:
			vals[i] = []interface{}{1.0}
		default:
			m := map[string]interface{}{"k": 1.0}
			if vChoice(name+".mk", 2) == 1 {
				m["j"] = "p"
			}
			vals[i] = m
		}
	}
	return vals
}

// c19Nulls: the aggregated rows come from V().outNull() instead of V(): every data
// vertex is reached from a source vertex of its own, and every vertex without an
// outgoing edge (the data vertices themselves) contributes a row without an element.
var c19Nulls = false

func c19Graph(vals []interface{}) *vGraph {
	g := &vGraph{honourLoad: true}
	for i, v := range vals {
		data := map[string]interface{}{}
		if v != nil {
			data["x"] = v
		}
		g.vs = append(g.vs, &gdbi.Vertex{ID: "v" + string(rune('0'+i)), Label: "L", Data: data, Loaded: true})
	}
	if c19Nulls {
		// load elision of the step before aggregate() is C02's subject (listed finding there)
		g.honourLoad = false
		for i := range vals {
			id := string(rune('0' + i))
			g.vs = append(g.vs, &gdbi.Vertex{ID: "s" + id, Label: "S", Data: map[string]interface{}{}, Loaded: true})
			g.es = append(g.es, &gdbi.Edge{ID: "e" + id, From: "s" + id, To: "v" + id, Label: "E", Data: map[string]interface{}{}, Loaded: true})
		}
	}
	g.compiler = func(g *vGraph) gdbi.Compiler { return NewCompiler(g, IndexStartOptimize) }
	return g
}

func c19Run(g *vGraph, aggs ...*gripql.Aggregate) ([]c19Row, bool) {
	stmts := []*gripql.GraphStatement{sV()}
	if c19Nulls {
		stmts = append(stmts, &gripql.GraphStatement{Statement: &gripql.GraphStatement_OutNull{OutNull: vList()}})
	}
	stmts = append(stmts, &gripql.GraphStatement{Statement: &gripql.GraphStatement_Aggregate{Aggregate: &gripql.Aggregations{Aggregations: aggs}}})
	pipe, err := g.Compiler().Compile(stmts, nil)
	if err != nil {
		return nil, false
	}
	return c19Rows(vRunPipe(g, pipe, 2)), true
}

// c19CheckOne compares the rows of one aggregation with the direct computation.
func c19CheckOne(kind int, size uint32, rows []c19Row, vals []interface{}) {
	switch kind {
	case 0: // count
		vAssert("C19.count", len(rows) == 1 && rows[0].key == "count" && rows[0].val == float64(len(vals)))
	case 1: // term
		// every bucket is a scalar value of the input with its exact frequency
		for _, r := range rows {
			f := 0
			for _, v := range vals {
				if c19IsScalar(v) && c08EqLocal(v, r.key) {
					f++
				}
			}
			vAssert("C19.term.bucket-frequency", f > 0 && r.val == float64(f))
		}
		// buckets are pairwise distinct
		for i := range rows {
			for j := range rows {
				if i < j {
					vAssert("C19.term.distinct-buckets", !c08EqLocal(rows[i].key, rows[j].key))
				}
			}
		}
		// number of distinct scalar values
		distinct := 0
		for i, v := range vals {
			if !c19IsScalar(v) {
				continue
			}
			first := true
			for j := 0; j < i; j++ {
				if c19IsScalar(vals[j]) && c08EqLocal(vals[j], v) {
					first = false
				}
			}
			if first {
				distinct++
			}
		}
		want := distinct
		if size > 0 && int(size) < distinct {
			want = int(size)
			vKnownFor("C19/term-size-ignored", true, "C19.term.bucket-count,C19.term.most-frequent")
		}
		vAssert("C19.term.bucket-count", len(rows) == want)
		// with a size limit the kept buckets are the most frequent ones
		if size > 0 {
			minKept := math.Inf(1)
			for _, r := range rows {
				if r.val < minKept {
					minKept = r.val
				}
			}
			for _, v := range vals {
				if !c19IsScalar(v) {
					continue
				}
				kept := false
				for _, r := range rows {
					if c08EqLocal(r.key, v) {
						kept = true
					}
				}
				if !kept {
					f := 0
					for _, w := range vals {
						if c19IsScalar(w) && c08EqLocal(w, v) {
							f++
						}
					}
					vAssert("C19.term.most-frequent", float64(f) <= minKept)
				}
			}
		}
	case 2: // field: keys of map values
		nk, nj := 0, 0
		for _, v := range vals {
			if m, ok := v.(map[string]interface{}); ok {
				if _, ok := m["k"]; ok {
					nk++
				}
				if _, ok := m["j"]; ok {
					nj++
				}
			}
		}
		gk, gj, other := 0.0, 0.0, 0
		for _, r := range rows {
			switch r.key {
			case "k":
				gk += r.val
			case "j":
				gj += r.val
			default:
				other++
			}
		}
		vAssert("C19.field.key-counts", gk == float64(nk) && gj == float64(nj) && other == 0)
	case 3: // type
		for _, tn := range []string{"STRING", "NUMERIC", "BOOL", "UNKNOWN"} {
			want := 0
			for _, v := range vals {
				if c19TypeName(v) == tn {
					want++
				}
			}
			got := 0.0
			n := 0
			for _, r := range rows {
				if r.key == tn {
					got += r.val
					n++
				}
			}
			vAssert("C19.type.counts", got == float64(want) && (n == 1) == (want > 0) && n <= 1)
		}
	}
}

func c19Agg(name string, kind int, size uint32) *gripql.Aggregate {
	a := &gripql.Aggregate{Name: name}
	switch kind {
	case 0:
		a.Aggregation = &gripql.Aggregate_Count{Count: &gripql.CountAggregation{}}
	case 1:
		a.Aggregation = &gripql.Aggregate_Term{Term: &gripql.TermAggregation{Field: "x", Size: size}}
	case 2:
		a.Aggregation = &gripql.Aggregate_Field{Field: &gripql.FieldAggregation{Field: "x"}}
	default:
		a.Aggregation = &gripql.Aggregate_Type{Type: &gripql.TypeAggregation{Field: "x"}}
	}
	return a
}

// VerifH_C19_aggregate: count / term / field / type over symbolic rows, alone and
// next to a second aggregation (independence).
func VerifH_C19_aggregate() {
	N := vParam("N", 3)
	n := vChoice("rows", N+1)
	vals := c19Values(n, vParam("KINDS", 6))
	kind := vChoice("agg", 4)
	var size uint32
	if kind == 1 {
		size = uint32(vChoice("size", 3)) // 0 = unlimited
	}
	// rows without an element (outNull) are rows too: they count, and they carry no field
	c19Nulls = vChoice("nulls", 2) == 1
	graphVals := vals
	if c19Nulls {
		for range graphVals {
			vals = append(vals, nil)
		}
	}
	rows, ok := c19Run(c19Graph(graphVals), c19Agg("a", kind, size))
	vAssert("C19.compiles", ok)
	for _, r := range rows {
		vAssert("C19.rows-are-named", r.name == "a")
	}
	c19CheckOne(kind, size, rows, vals)
	// the same aggregation next to another one returns the same rows
	if vChoice("second", 2) == 1 {
		k2 := vChoice("agg2", 4)
		both, ok2 := c19Run(c19Graph(graphVals), c19Agg("a", kind, size), c19Agg("b", k2, 0))
		vAssert("C19.compiles", ok2)
		c19CheckOne(kind, size, c19Named(both, "a"), vals)
		c19CheckOne(k2, 0, c19Named(both, "b"), vals)
		vAssert("C19.independent.row-count", len(c19Named(both, "a")) == len(rows) && len(c19Named(both, "a"))+len(c19Named(both, "b")) == len(both))
	}
}

// VerifH_C19_histogram: buckets aligned to multiples of the interval, every
// numeric value in exactly one bucket, counts sum to the number of numeric values.
func VerifH_C19_histogram() {
	N := vParam("N", 3)
	n := vChoice("rows", N+1)
	vals := make([]interface{}, n)
	nonNumeric := false
	for i := 0; i < n; i++ {
		name := "r" + string(rune('0'+i))
		switch vChoice(name+".kind", 3) {
		case 0:
			// small integers and halves: inside the range where IEEE rounding keeps the bucket law exact
			// (eager case split: the bucket loop does floating-point division and repeated
			// addition, which no installed solver decides within the time-out when symbolic)
			k := vChoice(name+".k", 13) - 6
			vals[i] = float64(k) / 2
		case 1:
			vals[i] = nil
		default:
			vals[i] = "p"
			nonNumeric = true
		}
	}
	c19Nulls = false
	interval := uint32(1 + vChoice("interval", 3))
	a := &gripql.Aggregate{Name: "h", Aggregation: &gripql.Aggregate_Histogram{Histogram: &gripql.HistogramAggregation{Field: "x", Interval: interval}}}
	vKnownFor("C19/histogram-counts-non-numeric-as-zero", nonNumeric, "C19.hist.sum,C19.hist.covers")
	rows, ok := c19Run(c19Graph(vals), a)
	vAssert("C19.compiles", ok)
	iv := float64(interval)
	numeric := 0
	for _, v := range vals {
		if _, isNum := v.(float64); isNum {
			numeric++
		}
	}
	sum := 0.0
	for _, r := range rows {
		b, isNum := r.key.(float64)
		vAssert("C19.hist.bucket-aligned", isNum && math.Floor(b/iv)*iv == b)
		sum += r.val
	}
	vAssert("C19.hist.sum", sum == float64(numeric))
	for _, v := range vals {
		f, isNum := v.(float64)
		if !isNum {
			continue
		}
		in := 0
		for _, r := range rows {
			b, _ := r.key.(float64)
			if f >= b && f < b+iv {
				in++
			}
		}
		vAssert("C19.hist.covers", in == 1)
	}
}
