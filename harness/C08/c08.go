package PKG

import (
	"strconv"

	"github.com/bmeg/grip/gdbi"
	"github.com/bmeg/grip/gripql"
	"google.golang.org/protobuf/types/known/structpb"
)

func init() {
	vHarnesses["VerifH_C08_cond"] = VerifH_C08_cond
	vHarnesses["VerifH_C08_bool"] = VerifH_C08_bool
}

// ---- the documented meaning (website/content/docs/queries/operations.md) ----

func c08Num(v interface{}) (float64, bool) {
	switch x := v.(type) {
	case float64:
		return x, true
	case string:
		f, err := strconv.ParseFloat(x, 64)
		if err != nil {
			return 0, false
		}
		return f, true
	}
	return 0, false
}

// c08Eq is JSON value equality.
func c08Eq(a, b interface{}) bool {
	switch x := a.(type) {
	case nil:
		return b == nil
	case bool:
		y, ok := b.(bool)
		return ok && x == y
	case float64:
		y, ok := b.(float64)
		return ok && x == y
	case string:
		y, ok := b.(string)
		return ok && x == y
	case []interface{}:
		y, ok := b.([]interface{})
		if !ok || len(x) != len(y) {
			return false
		}
		for i := range x {
			if !c08Eq(x[i], y[i]) {
				return false
			}
		}
		return true
	case map[string]interface{}:
		y, ok := b.(map[string]interface{})
		if !ok || len(x) != len(y) {
			return false
		}
		for k, xv := range x {
			yv, ok := y[k]
			if !ok || !c08Eq(xv, yv) {
				return false
			}
		}
		return true
	}
	return false
}

func c08Pair(arg interface{}) (lo, hi float64, ok bool) {
	l, isList := arg.([]interface{})
	if !isList || len(l) != 2 {
		return 0, 0, false
	}
	lo, ok1 := c08Num(l[0])
	hi, ok2 := c08Num(l[1])
	return lo, hi, ok1 && ok2
}

// c08Spec returns the documented result and whether the documentation defines one.
func c08Spec(op gripql.Condition, present bool, elem, arg interface{}) (want bool, defined bool) {
	if !present {
		elem = nil
	}
	switch op {
	case gripql.Condition_EQ:
		return c08Eq(elem, arg), present || arg != nil
	case gripql.Condition_NEQ:
		return !c08Eq(elem, arg), present || arg != nil
	case gripql.Condition_GT, gripql.Condition_GTE, gripql.Condition_LT, gripql.Condition_LTE:
		e, ok1 := c08Num(elem)
		a, ok2 := c08Num(arg)
		if !ok1 || !ok2 {
			return false, true // operands that are not numbers never match an ordering test
		}
		switch op {
		case gripql.Condition_GT:
			return e > a, true
		case gripql.Condition_GTE:
			return e >= a, true
		case gripql.Condition_LT:
			return e < a, true
		default:
			return e <= a, true
		}
	case gripql.Condition_INSIDE, gripql.Condition_OUTSIDE, gripql.Condition_BETWEEN:
		lo, hi, ok := c08Pair(arg)
		e, ok1 := c08Num(elem)
		if !ok || !ok1 {
			return false, true
		}
		switch op {
		case gripql.Condition_INSIDE:
			return e > lo && e < hi, true
		case gripql.Condition_OUTSIDE:
			return e < lo || e > hi, true
		default:
			return e >= lo && e < hi, true
		}
	case gripql.Condition_WITHIN, gripql.Condition_WITHOUT:
		l, isList := arg.([]interface{})
		if !isList {
			return false, false // the documentation only describes list arguments
		}
		found := false
		for _, v := range l {
			if c08Eq(elem, v) {
				found = true
			}
		}
		if !present {
			// a missing field compared with a null member: not described
			for _, v := range l {
				if v == nil {
					return false, false
				}
			}
		}
		if op == gripql.Condition_WITHIN {
			return found, true
		}
		return !found, true
	case gripql.Condition_CONTAINS:
		l, isList := elem.([]interface{})
		if !isList {
			return false, true
		}
		for _, v := range l {
			if c08Eq(v, arg) {
				return true, true
			}
		}
		return false, true
	}
	return false, false
}

func c08IsBool(v interface{}) bool { _, ok := v.(bool); return ok }

func c08HasBool(arg interface{}) bool {
	if c08IsBool(arg) {
		return true
	}
	if l, ok := arg.([]interface{}); ok {
		for _, v := range l {
			if c08IsBool(v) {
				return true
			}
		}
	}
	return false
}

func c08HasNull(arg interface{}) bool {
	if arg == nil {
		return true
	}
	if l, ok := arg.([]interface{}); ok {
		for _, v := range l {
			if v == nil {
				return true
			}
		}
	}
	return false
}

func c08Ordering(op gripql.Condition) bool {
	return op >= gripql.Condition_GT && op <= gripql.Condition_BETWEEN
}

// VerifH_C08_cond: one condition, every operator, every pair of JSON kinds.
func VerifH_C08_cond() {
	L := vParam("L", 1)
	N := vParam("N", 2)
	NE := vParam("NE", 2)
	op := gripql.Condition(vChoice("op", 14)) // 0..12 declared, 13 = out of range
	keyKind := vChoice("key", 3)              // data field, mark namespace, missing field
	arg := vGenJSON("a", N, L)
	var elem interface{}
	present := true
	data := map[string]interface{}{}
	key := "x"
	switch keyKind {
	case 0:
		elem = vGenJSON("e", NE, L)
		data["x"] = elem
	case 1:
		elem = vGenJSON("e", NE, L)
		data["x"] = elem
		key = "$m.x"
	default:
		present = false
	}
	de := &gdbi.DataElement{ID: "v1", Label: "L", Data: data, Loaded: true}
	var t gdbi.Traveler = &gdbi.BaseTraveler{Current: de}
	if keyKind == 1 {
		t = (&gdbi.BaseTraveler{Current: &gdbi.DataElement{ID: "w", Label: "L", Data: map[string]interface{}{}, Loaded: true}}).AddMark("m", de)
	}
	pv, err := structpb.NewValue(arg)
	if err != nil {
		return
	}
	vKnown("C08/bool-ordering", c08Ordering(op) && (c08IsBool(elem) || c08HasBool(arg)))
	got := MatchesCondition(t, &gripql.HasCondition{Key: key, Value: pv, Condition: op})
	want, defined := c08Spec(op, present, elem, arg)
	vReach("cond.evaluated")
	if defined {
		vAssert("C08.cond", got == want)
	}
}

// ---- Boolean algebra ----

type c08Tree struct {
	kind int // 0 leaf, 1 not, 2 and, 3 or
	leaf int
	kids []*c08Tree
}

func c08GenTree(name string, depth, arity, leaves int) *c08Tree {
	n := 1
	if depth > 0 {
		n = 4
	}
	switch vChoice(name+".k", n) {
	case 0:
		return &c08Tree{kind: 0, leaf: vChoice(name+".leaf", leaves)}
	case 1:
		return &c08Tree{kind: 1, kids: []*c08Tree{c08GenTree(name+"n", depth-1, arity, leaves)}}
	case 2:
		t := &c08Tree{kind: 2}
		k := vChoice(name+".arity", arity+1)
		for i := 0; i < k; i++ {
			t.kids = append(t.kids, c08GenTree(name+"a"+strconv.Itoa(i), depth-1, arity, leaves))
		}
		return t
	default:
		t := &c08Tree{kind: 3}
		k := vChoice(name+".arity", arity+1)
		for i := 0; i < k; i++ {
			t.kids = append(t.kids, c08GenTree(name+"o"+strconv.Itoa(i), depth-1, arity, leaves))
		}
		return t
	}
}

func (t *c08Tree) expr() *gripql.HasExpression {
	switch t.kind {
	case 0:
		// leaf 0: eq(p0, true); leaves 1 and 2: gt(x, 5) and lte(x, 5), which are
		// complements of each other on numbers only (both are false when x is missing
		// or not a number)
		if t.leaf == 1 || t.leaf == 2 {
			v, _ := structpb.NewValue(5.0)
			op := gripql.Condition_GT
			if t.leaf == 2 {
				op = gripql.Condition_LTE
			}
			return &gripql.HasExpression{Expression: &gripql.HasExpression_Condition{Condition: &gripql.HasCondition{Key: "x", Value: v, Condition: op}}}
		}
		v, _ := structpb.NewValue(true)
		return &gripql.HasExpression{Expression: &gripql.HasExpression_Condition{Condition: &gripql.HasCondition{
			Key: "p" + strconv.Itoa(t.leaf), Value: v, Condition: gripql.Condition_EQ}}}
	case 1:
		return &gripql.HasExpression{Expression: &gripql.HasExpression_Not{Not: t.kids[0].expr()}}
	case 2:
		l := &gripql.HasExpressionList{}
		for _, k := range t.kids {
			l.Expressions = append(l.Expressions, k.expr())
		}
		return &gripql.HasExpression{Expression: &gripql.HasExpression_And{And: l}}
	default:
		l := &gripql.HasExpressionList{}
		for _, k := range t.kids {
			l.Expressions = append(l.Expressions, k.expr())
		}
		return &gripql.HasExpression{Expression: &gripql.HasExpression_Or{Or: l}}
	}
}

func (t *c08Tree) eval(p []bool) bool {
	switch t.kind {
	case 0:
		return p[t.leaf]
	case 1:
		return !t.kids[0].eval(p)
	case 2:
		r := true
		for _, k := range t.kids {
			if !k.eval(p) {
				r = false
			}
		}
		return r
	default:
		r := false
		for _, k := range t.kids {
			if k.eval(p) {
				r = true
			}
		}
		return r
	}
}

// dual returns the De Morgan dual: not(and(a,b)) == or(not a, not b).
func (t *c08Tree) neg() *c08Tree {
	switch t.kind {
	case 1:
		return t.kids[0]
	case 2, 3:
		d := &c08Tree{kind: 5 - t.kind}
		for _, k := range t.kids {
			d.kids = append(d.kids, k.neg())
		}
		return d
	}
	return &c08Tree{kind: 1, kids: []*c08Tree{t}}
}

// VerifH_C08_bool: and/or/not are ordinary Boolean algebra over the leaves.
func VerifH_C08_bool() {
	D := vParam("D", 2)
	A := vParam("A", 2)
	data := map[string]interface{}{"p0": vNondetBool("p0")}
	switch vChoice("x.kind", 3) {
	case 1:
		data["x"] = "s"
	case 2:
		data["x"] = vFinite("x")
	}
	t := &gdbi.BaseTraveler{Current: &gdbi.DataElement{ID: "v1", Label: "L", Data: data, Loaded: true}}
	// the truth value of a leaf is what the real code answers for the bare condition
	// (its meaning is the subject of VerifH_C08_cond); the connectives must be
	// truth-functional over these
	p := make([]bool, 3)
	for i := range p {
		p[i] = MatchesHasExpression(t, (&c08Tree{kind: 0, leaf: i}).expr())
	}
	tree := c08GenTree("t", D, A, 3)
	got := MatchesHasExpression(t, tree.expr())
	vAssert("C08.bool.structural", got == tree.eval(p))
	// De Morgan dual / double negation evaluated by the real code agree
	dual := &c08Tree{kind: 1, kids: []*c08Tree{tree.neg()}}
	vAssert("C08.bool.demorgan", MatchesHasExpression(t, dual.expr()) == got)
	// operand reversal
	if (tree.kind == 2 || tree.kind == 3) && len(tree.kids) == 2 {
		rev := &c08Tree{kind: tree.kind, kids: []*c08Tree{tree.kids[1], tree.kids[0]}}
		vAssert("C08.bool.commute", MatchesHasExpression(t, rev.expr()) == got)
	}
}
