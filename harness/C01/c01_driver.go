package PKG

// C01 on the default driver, and at the same time the cross-check of the
// in-memory graph stub that the pipeline checks (C01, C02, C06, C07, C12, C19) run
// on: the same symbolic graph is loaded into the real kvgraph (over the store
// model) and into the stub, the same traversal is compiled for each with the
// production compiler, and the converted rows must be the same multiset.

import (
	"reflect"

	"github.com/bmeg/grip/engine/core"
	"github.com/bmeg/grip/gdbi"
	"github.com/bmeg/grip/gripql"
)

func init() {
	vHarnesses["VerifH_C01_driver"] = VerifH_C01_driver
}

func c01dRowsEq(a, b []*gripql.QueryResult) bool {
	if len(a) != len(b) {
		return false
	}
	for _, x := range a {
		na, nb := 0, 0
		for _, y := range a {
			if reflect.DeepEqual(x, y) {
				na++
			}
		}
		for _, y := range b {
			if reflect.DeepEqual(x, y) {
				nb++
			}
		}
		if na != nb {
			return false
		}
	}
	return true
}

func VerifH_C01_driver() {
	N := vParam("N", 2)
	nE := vParam("NE", 1)
	// the symbolic graph: vertices a, b; edges with symbolic endpoints in {a,b,c(absent)} and labels
	vs := []*gdbi.Vertex{
		{ID: "a", Label: vSymID("g.a.label", 'A', 'B'), Data: map[string]interface{}{"x": vFinite("g.a.x")}},
		{ID: "b", Label: vSymID("g.b.label", 'A', 'B'), Data: map[string]interface{}{}},
	}
	var es []*gdbi.Edge
	for i := 0; i < nE; i++ {
		n := "g.e" + string(rune('0'+i))
		es = append(es, &gdbi.Edge{ID: "e" + string(rune('0'+i)), From: vSymID(n+".from", 'a', 'c'), To: vSymID(n+".to", 'a', 'c'),
			Label: vSymID(n+".label", 'A', 'B'), Data: map[string]interface{}{"x": vFinite(n + ".x")}})
	}
	// the real driver
	db := NewKVGraph(vNewKV()).(*KVGraph)
	db.AddGraph("g")
	real, _ := db.Graph("g")
	real.AddVertex(vs)
	real.AddEdge(es)
	// the stub (vertices always loaded, like kvgraph; edges honour the hint, like kvgraph)
	stub := &vGraph{honourLoad: true}
	for _, v := range vs {
		stub.vs = append(stub.vs, &gdbi.Vertex{ID: v.ID, Label: v.Label, Data: v.Data, Loaded: true})
	}
	for _, e := range es {
		stub.es = append(stub.es, &gdbi.Edge{ID: e.ID, From: e.From, To: e.To, Label: e.Label, Data: e.Data, Loaded: true})
	}
	stub.compiler = func(g *vGraph) gdbi.Compiler { return core.NewCompiler(g, core.IndexStartOptimize) }
	// the traversal
	var stmts []*gripql.GraphStatement
	switch vChoice("start", 3) {
	case 0:
		stmts = append(stmts, sV())
	case 1:
		stmts = append(stmts, sV(vSymID("start.i", 'a', 'c')))
	default:
		stmts = append(stmts, sE())
	}
	n := vChoice("len", N+1)
	readsEdgeData := false
	for i := 0; i < n; i++ {
		name := "q" + string(rune('0'+i))
		switch vChoice(name, 9) {
		case 0:
			stmts = append(stmts, sOut())
		case 1:
			stmts = append(stmts, sIn())
		case 2:
			stmts = append(stmts, sBoth())
		case 3:
			stmts = append(stmts, sOutE())
		case 4:
			stmts = append(stmts, sInE())
		case 5:
			stmts = append(stmts, sHasLabel(vSymID(name+".l", 'A', 'B')))
		case 6:
			stmts = append(stmts, sHas(vCond("x", gripql.Condition_GT, vFinite(name+".n"))))
		case 7:
			stmts = append(stmts, sOut(vSymID(name+".l", 'A', 'B')))
		default:
			stmts = append(stmts, sCount())
		}
	}
	_ = readsEdgeData
	pr, errR := real.Compiler().Compile(stmts, nil)
	ps, errS := stub.Compiler().Compile(stmts, nil)
	vAssert("C01.driver.accept-agree", (errR == nil) == (errS == nil))
	if errR != nil || errS != nil {
		vReach("c01.driver.rejected")
		return
	}
	got := vRunPipe(real, pr, 2)
	want := vRunPipe(stub, ps, 2)
	vReach("c01.driver.ran")
	vAssert("C01.driver.rows-equal-stub", c01dRowsEq(got, want))
}
