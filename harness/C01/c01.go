package PKG

import (
	"github.com/bmeg/grip/gdbi"
	"github.com/bmeg/grip/gripql"
)

func init() {
	vHarnesses["VerifH_C01_traversal"] = VerifH_C01_traversal
	vHarnesses["VerifH_C01_path"] = VerifH_C01_path
	vHarnesses["VerifH_C01_unwind"] = VerifH_C01_unwind
	vHarnesses["VerifH_C01_distinct"] = VerifH_C01_distinct
}

// ---------------------------------------------------------------------------
// Reference interpreter: each step maps a list of rows to a list of rows by its
// documented meaning (website/content/docs/queries/operations.md). Independent of
// the engine: plain lists, no channels, no processors.
// ---------------------------------------------------------------------------

type rElem struct {
	edge      bool
	id, label string
	from, to  string
	data      map[string]interface{}
}

type rRow struct {
	cur    *rElem
	marks  map[string]*rElem
	count  uint32
	isCnt  bool
	render interface{}
	isRen  bool
	sel    map[string]*rElem
}

type rGraph struct {
	vs []*rElem
	es []*rElem
}

func rFromGraph(g *vGraph) *rGraph {
	r := &rGraph{}
	for _, v := range g.vs {
		r.vs = append(r.vs, &rElem{id: v.ID, label: v.Label, data: v.Data})
	}
	for _, e := range g.es {
		r.es = append(r.es, &rElem{edge: true, id: e.ID, label: e.Label, from: e.From, to: e.To, data: e.Data})
	}
	return r
}

func (g *rGraph) vertex(id string) *rElem {
	for _, v := range g.vs {
		if v.id == id {
			return v
		}
	}
	return nil
}

func rIn(list []string, s string) bool {
	for _, x := range list {
		if x == s {
			return true
		}
	}
	return false
}

func rLabelOK(labels []string, l string) bool { return len(labels) == 0 || rIn(labels, l) }

const (
	tNone = iota
	tVertex
	tEdge
	tCount
	tRender
	tSelection
	tPath
)

// rStep is the reference's view of a statement.
type rStep struct {
	kind  string
	ids   []string // V/E ids, hasId, labels of moves / hasLabel
	key   string
	num   float64
	str   string
	mark  string
	marks []string
	n     uint32
	a, b  int32
}

func rWith(r rRow, e *rElem) rRow {
	return rRow{cur: e, marks: r.marks}
}

func rLookup(e *rElem, key string) (interface{}, bool) {
	switch key {
	case "_gid":
		return e.id, true
	case "_label":
		return e.label, true
	}
	v, ok := e.data[key]
	return v, ok
}

// rApply: one step of the list semantics. ok=false: the step is ill-typed here.
func rApply(g *rGraph, st rStep, in []rRow, typ int, markT map[string]int) ([]rRow, int, bool) {
	var out []rRow
	onElem := typ == tVertex || typ == tEdge
	switch st.kind {
	case "V":
		if typ != tNone {
			return nil, typ, false
		}
		if len(st.ids) == 0 {
			for _, v := range g.vs {
				out = append(out, rRow{cur: v})
			}
		} else {
			for _, id := range st.ids {
				if v := g.vertex(id); v != nil {
					out = append(out, rRow{cur: v})
				}
			}
		}
		return out, tVertex, true
	case "E":
		if typ != tNone {
			return nil, typ, false
		}
		for _, e := range g.es {
			if len(st.ids) == 0 || rIn(st.ids, e.id) {
				out = append(out, rRow{cur: e})
			}
		}
		return out, tEdge, true
	case "out", "in", "both":
		if !onElem {
			return nil, typ, false
		}
		for _, r := range in {
			if typ == tVertex {
				for _, e := range g.es {
					if !rLabelOK(st.ids, e.label) {
						continue
					}
					if (st.kind == "in" || st.kind == "both") && e.to == r.cur.id {
						if v := g.vertex(e.from); v != nil {
							out = append(out, rWith(r, v))
						}
					}
					if (st.kind == "out" || st.kind == "both") && e.from == r.cur.id {
						if v := g.vertex(e.to); v != nil {
							out = append(out, rWith(r, v))
						}
					}
				}
			} else {
				// from an edge: its source (in), destination (out) or both
				if st.kind == "in" || st.kind == "both" {
					if v := g.vertex(r.cur.from); v != nil {
						out = append(out, rWith(r, v))
					}
				}
				if st.kind == "out" || st.kind == "both" {
					if v := g.vertex(r.cur.to); v != nil {
						out = append(out, rWith(r, v))
					}
				}
			}
		}
		return out, tVertex, true
	case "outE", "inE", "bothE":
		if typ != tVertex {
			return nil, typ, false
		}
		for _, r := range in {
			for _, e := range g.es {
				if !rLabelOK(st.ids, e.label) {
					continue
				}
				if (st.kind == "inE" || st.kind == "bothE") && e.to == r.cur.id {
					out = append(out, rWith(r, e))
				}
				if (st.kind == "outE" || st.kind == "bothE") && e.from == r.cur.id {
					out = append(out, rWith(r, e))
				}
			}
		}
		return out, tEdge, true
	case "hasLabel":
		if !onElem {
			return nil, typ, false
		}
		for _, r := range in {
			if rIn(st.ids, r.cur.label) {
				out = append(out, r)
			}
		}
		return out, typ, true
	case "hasId":
		if !onElem {
			return nil, typ, false
		}
		for _, r := range in {
			if rIn(st.ids, r.cur.id) {
				out = append(out, r)
			}
		}
		return out, typ, true
	case "hasKey":
		if !onElem {
			return nil, typ, false
		}
		for _, r := range in {
			if _, ok := r.cur.data[st.key]; ok {
				out = append(out, r)
			}
		}
		return out, typ, true
	case "has-eq-num", "has-gt-num", "has-eq-str":
		if !onElem {
			return nil, typ, false
		}
		for _, r := range in {
			v, _ := rLookup(r.cur, st.key)
			keep := false
			switch st.kind {
			case "has-eq-num":
				f, ok := v.(float64)
				keep = ok && f == st.num
			case "has-gt-num":
				f, ok := v.(float64)
				keep = ok && f > st.num
			default:
				s, ok := v.(string)
				keep = ok && s == st.str
			}
			if keep {
				out = append(out, r)
			}
		}
		return out, typ, true
	case "as":
		if typ == tNone {
			return nil, typ, false
		}
		for _, r := range in {
			m := map[string]*rElem{}
			for k, v := range r.marks {
				m[k] = v
			}
			m[st.mark] = r.cur
			n := r
			n.marks = m
			out = append(out, n)
		}
		markT[st.mark] = typ
		return out, typ, true
	case "select1":
		if !onElem {
			return nil, typ, false
		}
		for _, r := range in {
			out = append(out, rWith(r, r.marks[st.mark]))
		}
		return out, markT[st.mark], true
	case "select2":
		if !onElem {
			return nil, typ, false
		}
		for _, r := range in {
			s := map[string]*rElem{}
			for _, m := range st.marks {
				s[m] = r.marks[m]
			}
			out = append(out, rRow{sel: s})
		}
		return out, tSelection, true
	case "fields":
		if !onElem {
			return nil, typ, false
		}
		for _, r := range in {
			d := map[string]interface{}{}
			if v, ok := r.cur.data[st.key]; ok {
				d[st.key] = v
			}
			e := *r.cur
			e.data = d
			out = append(out, rWith(r, &e))
		}
		return out, typ, true
	case "fields-exclude":
		if !onElem {
			return nil, typ, false
		}
		for _, r := range in {
			d := map[string]interface{}{}
			for k, v := range r.cur.data {
				if k != st.key {
					d[k] = v
				}
			}
			e := *r.cur
			e.data = d
			out = append(out, rWith(r, &e))
		}
		return out, typ, true
	case "render":
		if !onElem {
			return nil, typ, false
		}
		for _, r := range in {
			v, _ := rLookup(r.cur, st.key)
			out = append(out, rRow{isRen: true, render: map[string]interface{}{"i": r.cur.id, "v": v}})
		}
		return out, tRender, true
	case "count":
		return []rRow{{isCnt: true, count: uint32(len(in))}}, tCount, true
	}
	return nil, typ, false
}

// ---------------------------------------------------------------------------
// Comparison of engine rows (gripql.QueryResult) with reference rows
// ---------------------------------------------------------------------------

func c01JSONEq(a, b interface{}) bool {
	switch x := a.(type) {
	case nil:
		return b == nil
	case bool:
		y, ok := b.(bool)
		return ok && x == y
	case float64:
		y, ok := b.(float64)
		return ok && x == y
	case string:
		y, ok := b.(string)
		return ok && x == y
	case []interface{}:
		y, ok := b.([]interface{})
		if !ok || len(x) != len(y) {
			return false
		}
		for i := range x {
			if !c01JSONEq(x[i], y[i]) {
				return false
			}
		}
		return true
	case map[string]interface{}:
		y, ok := b.(map[string]interface{})
		if !ok || len(x) != len(y) {
			return false
		}
		for k, xv := range x {
			yv, ok := y[k]
			if !ok || !c01JSONEq(xv, yv) {
				return false
			}
		}
		return true
	}
	return false
}

func c01ElemEqVertex(v *gripql.Vertex, e *rElem) bool {
	if e == nil || e.edge {
		return false
	}
	return v != nil && v.Gid == e.id && v.Label == e.label && c01JSONEq(v.Data.AsMap(), c01Data(e.data))
}

func c01ElemEqEdge(v *gripql.Edge, e *rElem) bool {
	if e == nil || !e.edge {
		return false
	}
	return v != nil && v.Gid == e.id && v.Label == e.label && v.From == e.from && v.To == e.to && c01JSONEq(v.Data.AsMap(), c01Data(e.data))
}

func c01Data(d map[string]interface{}) interface{} {
	if d == nil {
		return map[string]interface{}{}
	}
	return d
}

func c01RowEq(q *gripql.QueryResult, r rRow, typ int, markT map[string]int) bool {
	switch typ {
	case tVertex:
		return c01ElemEqVertex(q.GetVertex(), r.cur)
	case tEdge:
		return c01ElemEqEdge(q.GetEdge(), r.cur)
	case tCount:
		_, ok := q.Result.(*gripql.QueryResult_Count)
		return ok && q.GetCount() == r.count
	case tRender:
		_, ok := q.Result.(*gripql.QueryResult_Render)
		return ok && c01JSONEq(q.GetRender().AsInterface(), r.render)
	case tSelection:
		s := q.GetSelections()
		if s == nil || len(s.Selections) != len(r.sel) {
			return false
		}
		for k, e := range r.sel {
			x, ok := s.Selections[k]
			if !ok {
				return false
			}
			if markT[k] == tVertex {
				if !c01ElemEqVertex(x.GetVertex(), e) {
					return false
				}
			} else if !c01ElemEqEdge(x.GetEdge(), e) {
				return false
			}
		}
		return true
	}
	return false
}

// c01MultisetEq: same rows with the same multiplicities (order is not part of the claim).
func c01MultisetEq(got []*gripql.QueryResult, want []rRow, typ int, markT map[string]int) bool {
	if len(got) != len(want) {
		return false
	}
	for _, w := range want {
		nw, ng := 0, 0
		for _, w2 := range want {
			if c01RefEq(w, w2) {
				nw++
			}
		}
		for _, q := range got {
			if c01RowEq(q, w, typ, markT) {
				ng++
			}
		}
		if nw != ng {
			return false
		}
	}
	return true
}

func c01RElemEq(a, b *rElem) bool {
	if a == nil || b == nil {
		return a == b
	}
	return a.edge == b.edge && a.id == b.id && a.label == b.label && a.from == b.from && a.to == b.to && c01JSONEq(c01Data(a.data), c01Data(b.data))
}

func c01RefEq(a, b rRow) bool {
	if a.isCnt || b.isCnt {
		return a.isCnt == b.isCnt && a.count == b.count
	}
	if a.isRen || b.isRen {
		return a.isRen == b.isRen && c01JSONEq(a.render, b.render)
	}
	if a.sel != nil || b.sel != nil {
		if len(a.sel) != len(b.sel) {
			return false
		}
		for k, x := range a.sel {
			if !c01RElemEq(x, b.sel[k]) {
				return false
			}
		}
		return true
	}
	return c01RElemEq(a.cur, b.cur)
}

// ---------------------------------------------------------------------------
// Statement generator: the same step for the engine and for the reference
// ---------------------------------------------------------------------------

func c01Stmt(name string, wide bool) (*gripql.GraphStatement, rStep) {
	n := 16
	if wide {
		n = 24
	}
	switch vChoice(name+".k", n) {
	case 0:
		l := vSymID(name+".l", 'A', 'B')
		return sHasLabel(l), rStep{kind: "hasLabel", ids: []string{l}}
	case 1:
		i := vSymID(name+".i", 'a', 'c')
		return sHasID(i), rStep{kind: "hasId", ids: []string{i}}
	case 2:
		f := vFinite(name + ".n")
		return sHas(vCond("x", gripql.Condition_EQ, f)), rStep{kind: "has-eq-num", key: "x", num: f}
	case 3:
		f := vFinite(name + ".n")
		return sHas(vCond("x", gripql.Condition_GT, f)), rStep{kind: "has-gt-num", key: "x", num: f}
	case 4:
		l := vSymID(name+".l", 'A', 'B')
		return sHas(vCond("_label", gripql.Condition_EQ, l)), rStep{kind: "has-eq-str", key: "_label", str: l}
	case 5:
		return sHasKey("x"), rStep{kind: "hasKey", key: "x"}
	case 6:
		return sOut(), rStep{kind: "out"}
	case 7:
		return sIn(), rStep{kind: "in"}
	case 8:
		return sOutE(), rStep{kind: "outE"}
	case 9:
		return sInE(), rStep{kind: "inE"}
	case 10:
		return sAs("m"), rStep{kind: "as", mark: "m"}
	case 11:
		return sSelect("m"), rStep{kind: "select1", mark: "m"}
	case 12:
		return sCount(), rStep{kind: "count"}
	case 13:
		return sFields("x"), rStep{kind: "fields", key: "x"}
	case 14:
		return sRender(map[string]interface{}{"i": "_gid", "v": "x"}), rStep{kind: "render", key: "x"}
	case 15:
		l := vSymID(name+".l", 'A', 'B')
		return sOut(l), rStep{kind: "out", ids: []string{l}}
	case 16:
		return sBoth(), rStep{kind: "both"}
	case 17:
		return sBothE(), rStep{kind: "bothE"}
	case 18:
		return sAs("u"), rStep{kind: "as", mark: "u"}
	case 19:
		return sSelect("m", "u"), rStep{kind: "select2", marks: []string{"m", "u"}}
	case 20:
		return sFields("-x"), rStep{kind: "fields-exclude", key: "x"}
	case 21:
		l := vSymID(name+".l", 'A', 'B')
		return sInE(l), rStep{kind: "inE", ids: []string{l}}
	case 22:
		i := vSymID(name+".i", 'a', 'c')
		return sHasID(i, "b"), rStep{kind: "hasId", ids: []string{i, "b"}}
	default:
		i := vSymID(name+".i", 'a', 'b')
		return sHas(vCond("_gid", gripql.Condition_EQ, i)), rStep{kind: "has-eq-str", key: "_gid", str: i}
	}
}

// VerifH_C01_traversal: rows returned by the production compiler + pipeline =
// the reference's list semantics, as multisets; ill-typed traversals are
// rejected before any row; limit/skip/range follow the arithmetic of the bounds.
func VerifH_C01_traversal() {
	N := vParam("N", 2)
	wide := vParam("WIDE", 0) == 1
	g := c02Graph(vParam("NE", 1))
	g.honourLoad = false
	g.compiler = func(g *vGraph) gdbi.Compiler { return NewCompiler(g, IndexStartOptimize) }
	ref := rFromGraph(g)
	var stmts []*gripql.GraphStatement
	var steps []rStep
	switch vChoice("start", 4) {
	case 0:
		stmts, steps = append(stmts, sV()), append(steps, rStep{kind: "V"})
	case 1:
		i := vSymID("start.i", 'a', 'c')
		stmts, steps = append(stmts, sV(i, "a")), append(steps, rStep{kind: "V", ids: []string{i, "a"}})
	case 2:
		stmts, steps = append(stmts, sE()), append(steps, rStep{kind: "E"})
	default:
		stmts, steps = append(stmts, sE("e0", "zz")), append(steps, rStep{kind: "E", ids: []string{"e0", "zz"}})
	}
	n := vChoice("len", N+1)
	marked := map[string]bool{}
	for i := 0; i < n; i++ {
		s, st := c01Stmt("q"+string(rune('0'+i)), wide)
		if st.kind == "select1" {
			vAssume(marked[st.mark]) // marks are defined before use
		}
		if st.kind == "select2" {
			vAssume(marked["m"] && marked["u"])
		}
		if st.kind == "as" {
			marked[st.mark] = true
		}
		stmts, steps = append(stmts, s), append(steps, st)
	}
	// reference run
	rows := []rRow{}
	typ := tNone
	markT := map[string]int{}
	wellTyped := true
	for _, st := range steps {
		var ok bool
		rows, typ, ok = rApply(ref, st, rows, typ, markT)
		if !ok {
			wellTyped = false
			break
		}
	}
	// optional truncation at the end
	trunc := vChoice("trunc", 4)
	var lim uint32
	var ra, rb int32
	switch trunc {
	case 1:
		lim = vNondetUint32("limit")
		stmts = append(stmts, sLimit(lim))
	case 2:
		lim = vNondetUint32("skip")
		stmts = append(stmts, sSkip(lim))
	case 3:
		ra, rb = vNondetInt32("range.start"), vNondetInt32("range.stop")
		stmts = append(stmts, sRange(ra, rb))
	}
	pipe, err := g.Compiler().Compile(stmts, nil)
	vAssert("C01.ill-typed-iff-rejected", (err != nil) == !wellTyped)
	if err != nil || !wellTyped {
		vReach("c01.rejected")
		return
	}
	got := vRunPipe(g, pipe, 2)
	vReach("c01.ran")
	if trunc == 0 {
		vAssert("C01.rows-equal-reference", c01MultisetEq(got, rows, typ, markT))
		return
	}
	// limit / skip / range: count by arithmetic on the untruncated count, rows a sub-multiset
	total := int64(len(rows))
	var want int64
	switch trunc {
	case 1:
		want = total
		if int64(lim) < total {
			want = int64(lim)
		}
	case 2:
		want = total - int64(lim)
		if want < 0 {
			want = 0
		}
	default:
		for i := int64(0); i < total; i++ {
			if i >= int64(ra) && (i < int64(rb) || rb == -1) {
				want++
			}
		}
	}
	vAssert("C01.truncation-count", int64(len(got)) == want)
	for _, q := range got {
		ng, nr := 0, 0
		for _, q2 := range got {
			if c01QEq(q, q2) {
				ng++
			}
		}
		for _, r := range rows {
			if c01RowEq(q, r, typ, markT) {
				nr++
			}
		}
		vAssert("C01.truncation-submultiset", ng <= nr)
	}
}

func c01QEq(a, b *gripql.QueryResult) bool {
	if av, bv := a.GetVertex(), b.GetVertex(); av != nil || bv != nil {
		return av != nil && bv != nil && av.Gid == bv.Gid && av.Label == bv.Label && c01JSONEq(av.Data.AsMap(), bv.Data.AsMap())
	}
	if ae, be := a.GetEdge(), b.GetEdge(); ae != nil || be != nil {
		return ae != nil && be != nil && ae.Gid == be.Gid && ae.Label == be.Label && ae.From == be.From && ae.To == be.To && c01JSONEq(ae.Data.AsMap(), be.Data.AsMap())
	}
	if _, ok := a.Result.(*gripql.QueryResult_Count); ok {
		return a.GetCount() == b.GetCount()
	}
	if _, ok := a.Result.(*gripql.QueryResult_Render); ok {
		return c01JSONEq(a.GetRender().AsInterface(), b.GetRender().AsInterface())
	}
	return a == b
}

// ---------------------------------------------------------------------------
// path(): every row reports the elements it visited - the start element and
// the element reached by every move, in order; filters add nothing.
// ---------------------------------------------------------------------------

type c01PRow struct {
	cur  *rElem
	path string
}

func c01PStep(e *rElem) string {
	if e.edge {
		return "e:" + e.id + ";"
	}
	return "v:" + e.id + ";"
}

// VerifH_C01_path: start, up to M moves (out/in/both/outE/inE/bothE, hasLabel in
// between), then path(): the multiset of reported paths equals the reference's.
func VerifH_C01_path() {
	M := vParam("M", 3)
	g := c02Graph(vParam("NE", 2))
	g.honourLoad = false
	g.compiler = func(g *vGraph) gdbi.Compiler { return NewCompiler(g, IndexStartOptimize) }
	ref := rFromGraph(g)
	var stmts []*gripql.GraphStatement
	var rows []c01PRow
	typ := tVertex
	switch []int{0, 2, 1}[vChoice("start", vParam("STARTS", 3))] {
	case 0:
		stmts = append(stmts, sV())
		for _, v := range ref.vs {
			rows = append(rows, c01PRow{v, c01PStep(v)})
		}
	case 1:
		i := vSymID("start.i", 'a', 'c')
		stmts = append(stmts, sV(i))
		if v := ref.vertex(i); v != nil {
			rows = append(rows, c01PRow{v, c01PStep(v)})
		}
	default:
		stmts = append(stmts, sE())
		typ = tEdge
		for _, e := range ref.es {
			rows = append(rows, c01PRow{e, c01PStep(e)})
		}
	}
	n := 1 + vChoice("moves", M)
	for i := 0; i < n; i++ {
		name := "m" + string(rune('0'+i))
		kind := []string{"out", "in", "both", "outE", "inE", "bothE", "hasLabel"}[vChoice(name, 7)]
		var next []c01PRow
		switch kind {
		case "hasLabel":
			l := vSymID(name+".l", 'A', 'B')
			stmts = append(stmts, sHasLabel(l))
			for _, r := range rows {
				if r.cur.label == l {
					next = append(next, r)
				}
			}
			rows = next
			continue
		case "out", "in", "both":
			stmts = append(stmts, map[string]*gripql.GraphStatement{"out": sOut(), "in": sIn(), "both": sBoth()}[kind])
			for _, r := range rows {
				if typ == tVertex {
					for _, e := range ref.es {
						if (kind == "in" || kind == "both") && e.to == r.cur.id {
							if v := ref.vertex(e.from); v != nil {
								next = append(next, c01PRow{v, r.path + c01PStep(v)})
							}
						}
						if (kind == "out" || kind == "both") && e.from == r.cur.id {
							if v := ref.vertex(e.to); v != nil {
								next = append(next, c01PRow{v, r.path + c01PStep(v)})
							}
						}
					}
				} else {
					if kind == "in" || kind == "both" {
						if v := ref.vertex(r.cur.from); v != nil {
							next = append(next, c01PRow{v, r.path + c01PStep(v)})
						}
					}
					if kind == "out" || kind == "both" {
						if v := ref.vertex(r.cur.to); v != nil {
							next = append(next, c01PRow{v, r.path + c01PStep(v)})
						}
					}
				}
			}
			typ = tVertex
		default:
			vAssume(typ == tVertex) // edge moves start from vertices (typing is C01_traversal's subject)
			stmts = append(stmts, map[string]*gripql.GraphStatement{"outE": sOutE(), "inE": sInE(), "bothE": sBothE()}[kind])
			for _, r := range rows {
				for _, e := range ref.es {
					if (kind == "inE" || kind == "bothE") && e.to == r.cur.id {
						next = append(next, c01PRow{e, r.path + c01PStep(e)})
					}
					if (kind == "outE" || kind == "bothE") && e.from == r.cur.id {
						next = append(next, c01PRow{e, r.path + c01PStep(e)})
					}
				}
			}
			typ = tEdge
		}
		rows = next
	}
	stmts = append(stmts, sPath())
	pipe, err := g.Compiler().Compile(stmts, nil)
	vAssert("C01.path.compiles", err == nil)
	if err != nil {
		return
	}
	got := vRunPipe(g, pipe, 2)
	vReach("c01.path.ran")
	var gotS []string
	for _, q := range got {
		p := q.GetPath()
		s := ""
		if p == nil {
			s = "not-a-path"
		} else {
			for _, x := range p.Values {
				m := x.GetStructValue().GetFields()
				if v, ok := m["vertex"]; ok {
					s += "v:" + v.GetStringValue() + ";"
				} else if e, ok := m["edge"]; ok {
					s += "e:" + e.GetStringValue() + ";"
				} else {
					s += "?;"
				}
			}
		}
		gotS = append(gotS, s)
	}
	same := len(gotS) == len(rows)
	for _, w := range rows {
		nw, ng := 0, 0
		for _, w2 := range rows {
			if w2.path == w.path {
				nw++
			}
		}
		for _, s := range gotS {
			if s == w.path {
				ng++
			}
		}
		if nw != ng {
			same = false
		}
	}
	vAssert("C01.path.rows-equal-reference", same)
}

// ---------------------------------------------------------------------------
// unwind(field): one row per element of the array found at field, the field
// holding that element and everything else as it was; an earlier mark of the
// element keeps the whole array.
// ---------------------------------------------------------------------------

func c01Dig(m map[string]interface{}, path []string) interface{} {
	var cur interface{} = m
	for _, p := range path {
		mm, ok := cur.(map[string]interface{})
		if !ok {
			return nil
		}
		cur = mm[p]
	}
	return cur
}

func VerifH_C01_unwind() {
	n := 2 + vChoice("elements", 2) // 2..3 elements
	var tags, nums []interface{}
	for i := 0; i < n; i++ {
		tags = append(tags, vSymID("tag"+string(rune('0'+i)), 'p', 'r'))
		nums = append(nums, vFinite("num"+string(rune('0'+i))))
	}
	g := &vGraph{honourLoad: false}
	g.vs = []*gdbi.Vertex{{ID: "a", Label: "A", Loaded: true, Data: map[string]interface{}{
		"y": nums, "k": "keep", "info": map[string]interface{}{"tags": tags, "other": 7.0}}}}
	g.compiler = func(g *vGraph) gdbi.Compiler { return NewCompiler(g, IndexStartOptimize) }
	nested := vChoice("field", 2) == 1
	field, path, list := "y", []string{"y"}, nums
	if nested {
		field, path, list = "info.tags", []string{"info", "tags"}, tags
	}
	marked := vChoice("mark", 2) == 1
	stmts := []*gripql.GraphStatement{sV("a")}
	if marked {
		stmts = append(stmts, sAs("m"))
	}
	stmts = append(stmts, sUnwind(field))
	back := marked && vChoice("selectMark", 2) == 1
	if back {
		stmts = append(stmts, sSelect("m"))
	}
	pipe, err := g.Compiler().Compile(stmts, nil)
	vAssert("C01.unwind.compiles", err == nil)
	if err != nil {
		return
	}
	rows := vRunPipe(g, pipe, 2)
	vReach("c01.unwind.ran")
	vAssert("C01.unwind.one-row-per-element", len(rows) == len(list))
	for _, r := range rows {
		v := r.GetVertex()
		vAssert("C01.unwind.rows-are-the-vertex", v != nil && v.Gid == "a" && v.Label == "A")
		if v == nil {
			return
		}
		data := v.Data.AsMap()
		if back {
			// the mark was taken before the unwind: it still holds the whole array
			vAssert("C01.unwind.mark-keeps-array", c01JSONEq(c01Dig(data, path), list))
			continue
		}
		vAssert("C01.unwind.other-fields-kept", data["k"] == "keep" && c01JSONEq(c01Dig(data, []string{"info", "other"}), 7.0))
	}
	if back {
		return
	}
	// the unwound field holds each element as often as the array does
	for _, e := range list {
		nw, ng := 0, 0
		for _, e2 := range list {
			if c01JSONEq(e, e2) {
				nw++
			}
		}
		for _, r := range rows {
			if c01JSONEq(c01Dig(r.GetVertex().Data.AsMap(), path), e) {
				ng++
			}
		}
		vAssert("C01.unwind.field-holds-each-element", nw == ng)
	}
}

// VerifH_C01_distinct: V().distinct(f) keeps the first row of every distinct value
// of f and drops rows without f; values of different JSON types are different
// values even when they print alike (the number 1 and the string "1", true and
// "true", ["x y"] and ["x","y"]).
func VerifH_C01_distinct() {
	n := 2 + vChoice("vertices", vParam("NV", 2))
	kinds := make([]int, n)
	g := &vGraph{honourLoad: false}
	for i := 0; i < n; i++ {
		data := map[string]interface{}{}
		kinds[i] = vChoice("v"+string(rune('0'+i))+".code", 8)
		switch kinds[i] {
		case 0:
			data["code"] = 1.0
		case 1:
			data["code"] = "1"
		case 2:
			data["code"] = true
		case 3:
			data["code"] = "true"
		case 4:
			data["code"] = []interface{}{"x y"}
		case 5:
			data["code"] = []interface{}{"x", "y"}
		case 6:
			data["code"] = 2.0
		default: // no such field
		}
		g.vs = append(g.vs, &gdbi.Vertex{ID: "v" + string(rune('0'+i)), Label: "L", Data: data, Loaded: true})
	}
	g.compiler = func(s *vGraph) gdbi.Compiler { return NewCompiler(s, IndexStartOptimize) }
	pipe, err := g.Compiler().Compile([]*gripql.GraphStatement{sV(), sDistinct("code")}, nil)
	vAssert("C01.distinct.compiles", err == nil)
	if err != nil {
		return
	}
	rows := vRunPipe(g, pipe, 2)
	var want []string
	for i := 0; i < n; i++ {
		if kinds[i] == 7 {
			continue
		}
		first := true
		for j := 0; j < i; j++ {
			if kinds[j] == kinds[i] {
				first = false
			}
		}
		if first {
			want = append(want, "v"+string(rune('0'+i)))
		}
	}
	vReach("c01.distinct.ran")
	ok := len(rows) == len(want)
	for i := range rows {
		if i < len(want) && (rows[i].GetVertex() == nil || rows[i].GetVertex().Gid != want[i]) {
			ok = false
		}
	}
	vAssert("C01.distinct.one-row-per-typed-value", ok)
}
