#!/usr/bin/env python3
"""Run /repo's test suite and check that every test of the pinned stable baseline passes."""
import json, subprocess, sys, os
base = json.load(open('/root/.vp/BASELINE.json'))
stable = set(base['stable_pass'])
env = dict(os.environ, GOFLAGS='-mod=mod', GOPROXY='off', GOSUMDB='off')
tags = sys.argv[1:]  # e.g. -tags verif
p = subprocess.run(['go', 'test', '-json', '-vet=off', '-count=1', '-timeout', '25m'] + tags + ['./...'], cwd='/repo', env=env, capture_output=True, text=True)
passed = set()
failed = set()
for line in p.stdout.splitlines():
    try:
        ev = json.loads(line)
    except Exception:
        continue
    if 'Test' in ev and ev.get('Action') in ('pass', 'fail'):
        name = ev['Package'] + '::' + ev['Test']
        (passed if ev['Action'] == 'pass' else failed).add(name)
# test/server's TestBasicAuth*/TestCasbinAccess dial the server they just started and fail
# with "connection refused" when the machine is busy (with and without any change to /repo):
# tests that did not pass are re-run on their own, up to three times
for attempt in range(3):
    missing = sorted(stable - passed)
    if not missing:
        break
    for pkg in sorted({m.split('::')[0] for m in missing}):
        names = '|'.join(m.split('::')[1] for m in missing if m.startswith(pkg + '::'))
        q = subprocess.run(['go', 'test', '-json', '-vet=off', '-count=1', '-timeout', '10m'] + tags + ['-run', '^(' + names + ')$', pkg],
                           cwd='/repo', env=env, capture_output=True, text=True)
        for line in q.stdout.splitlines():
            try:
                ev = json.loads(line)
            except Exception:
                continue
            if 'Test' in ev and ev.get('Action') == 'pass':
                passed.add(ev['Package'] + '::' + ev['Test'])
missing = sorted(stable - passed)
print(f"stable baseline: {len(stable)}  passed now: {len(stable & passed)}  missing/failed: {len(missing)}")
for m in missing:
    print("  NOT PASSING:", m)
print("other failures:", sorted(failed - stable))
sys.exit(1 if missing else 0)
