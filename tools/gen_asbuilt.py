#!/usr/bin/env python3
"""Prints the per-harness 'as built' table of DESIGN.md section 11.2 from harness/*/config.json
and the latest evidence files."""
import json, glob, os
for cfg in sorted(glob.glob('/verif/harness/C*/config.json')):
    c = json.load(open(cfg))
    pid = c['property']
    ev = {}
    p = f'/verif/evidence/{pid}.json'
    if os.path.exists(p):
        ev = json.load(open(p))
    print(f"#### {pid}")
    for u in c['units']:
        for h in u['harnesses']:
            q = h.get('quick') or {}
            t = h.get('thorough') or {}
            def opts(o):
                parts = [f"{k}={v}" for k, v in (o.get('params') or {}).items()]
                if o.get('explore'):
                    parts.append(f"schedules<= {o.get('sched_budget',0)} deviations")
                if o.get('unwind'):
                    parts.append(f"unwind {o['unwind']}")
                if o.get('chan_scale'):
                    parts.append(f"channel capacities / {o['chan_scale']}")
                return ', '.join(parts) or 'defaults'
            print(f"* `{h['func']}` (package `{u['pkg'].replace('github.com/bmeg/grip/','')}`): {h['bounds']}. Quick: {opts(q)}. Thorough: {opts(t)}.")
    if c.get('assumptions'):
        print("* Assumptions/stubs: " + '; '.join(c['assumptions']))
    if c.get('outside'):
        print("* Outside the claim: " + '; '.join(c['outside']))
    print()
