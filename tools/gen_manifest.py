#!/usr/bin/env python3
"""Generate /verif/MANIFEST.json from tools/claims.json (one entry per property)."""
import json
props = [json.loads(l) for l in open('/verif/properties.jsonl')]
claims = json.load(open('/verif/tools/claims.json'))
m = {
 "version": 1,
 "setup_cmd": "cd /verif/engine && GOFLAGS=-mod=mod GOPROXY=off GOSUMDB=off GOTOOLCHAIN=local go build -o /verif/bin/vcheck ./cmd/vcheck",
 "hooks": {"guard": "verif", "enable": "no hooks: harnesses enter /repo's packages as go/packages overlay files at check time (nothing is written to /repo); native replays use `go test -overlay`",
           "baseline_off_cmd": "python3 /verif/tools/baseline_check.py", "source_commits": [], "add_only": True},
 "engines": [{"name": "gosym", "path": "/verif/engine", "serves_properties": [c for c in claims if claims[c].get("claim")],
              "kind_free_text": "forking symbolic executor for Go SSA (go/ssa of /repo's current tree, rebuilt on every run) with z3 deciding every branch/assertion; counterexamples replayed natively with go test -overlay"}],
 "checks": [], "not_applicable": [],
 "notes": "Every check is bounded symbolic execution of the real code; bounds, stubs and assumptions are in each evidence file. Known findings: /verif/known_findings.json."
}
for p in props:
    pid = p['id']
    c = claims.get(pid, {})
    if c.get("claim"):
        m["checks"].append({
            "property_id": pid,
            "quick_cmd": f"./bin/vcheck run {pid} --tier quick",
            "thorough_cmd": f"./bin/vcheck run {pid} --tier thorough",
            "evidence_file": f"/verif/evidence/{pid}.json",
            "replay_cmd_template": "./bin/vcheck replay {path}",
            "engine": "gosym",
            "level_claimed": {"category": "model_checking", "text": c["level_text"], "design_ref": c.get("design_ref", "DESIGN.md section 6/" + pid)},
            "level_note": c["level_note"],
            "technique": c.get("technique", "bounded symbolic execution of go/ssa + SMT (z3): every branch, assertion and panic decided over all input values within the stated bounds; counterexamples replayed natively; sampled unsat verdicts cross-checked by second solvers (z3 5.1.0, cvc5)"),
        })
    else:
        m["not_applicable"].append({"property_id": pid, "reason": c.get("reason", "check not built yet (work in progress; see DESIGN.md section 6)")})
json.dump(m, open('/verif/MANIFEST.json', 'w'), indent=1)
print("checks:", [c["property_id"] for c in m["checks"]])
