#!/bin/bash
# usage: try_seed.sh <patch.diff> <PROP> [PROP...]   -- applies the patch to /repo, runs the quick checks, restores /repo
set -u
patch=$1; shift
cd /repo || exit 2
git diff --quiet || { echo "/repo has uncommitted changes"; exit 2; }
git apply "$patch" || { echo "patch does not apply"; exit 2; }
trap 'git -C /repo checkout -- . ; git -C /repo clean -fdq -- . 2>/dev/null; rm -rf "$VCHECK_EVIDENCE_DIR"' EXIT
go build ./kvgraph/ ./engine/... ./kvindex/ ./gripql/ ./server/ 2>&1 | grep -v main_main | head -3
cd /verif
export VCHECK_EVIDENCE_DIR=$(mktemp -d /tmp/vcheck-seed-evidence.XXXXXX)
for p in "$@"; do
  out=$(timeout 1500 ./bin/vcheck run $p ${VCHECK_ARGS:-} 2>&1)
  rc=$?
  echo "== $p exit=$rc"
  echo "$out" | grep "^VIOLATION\|  harness=\|BROKEN\|INCONCLUSIVE\|^OK" | cut -c1-400 | head -8
done
