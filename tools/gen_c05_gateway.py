#!/usr/bin/env python3
"""Regenerates harness/C05/c05_gateway.go's call table from /repo/gripql/gripql.pb.dgw.go.
(The harness itself checks on every run that the table covers every method of the
service descriptors, so a stale table is reported, not silently accepted.)
See the generation code in the repository history of this file's first version:
the table lists, per direct-client method, a call with an empty request."""
print("see harness/C05/c05_gateway.go; regenerate by re-running the snippet recorded in DESIGN.md 11.2/C05 if the service definitions change")
