#!/usr/bin/env python3
"""Refreshes the generated parts of DESIGN.md section 11 (per-harness bounds, known findings, cost)
from harness/*/config.json, known_findings.json and evidence/*.json."""
import json, glob, os, re, subprocess
D = '/verif/DESIGN.md'
s = open(D).read()

def fill(tag, body):
    global s
    a, b = f'<!-- {tag}-BEGIN -->', f'<!-- {tag}-END -->'
    i, j = s.index(a), s.index(b)
    s = s[:i + len(a)] + '\n' + body.rstrip() + '\n' + s[j:]

fill('ASBUILT', subprocess.run(['python3', '/verif/tools/gen_asbuilt.py'], capture_output=True, text=True).stdout)

k = json.load(open('/verif/known_findings.json'))
rows = ['| finding | properties | what fails |', '|---|---|---|']
for f in k['findings']:
    if f['status'] == 'known':
        what = f['what'].replace('|', '/')
        rows.append(f"| {f['id']} | {f['property']} | {what} |")
fill('KNOWN', '\n'.join(rows))

rows = ['| property | tier | paths decided | SSA instructions | native runs | harnesses exhaustive | wall (s) |', '|---|---|---|---|---|---|---|']
for p in sorted(glob.glob('/verif/evidence/C*.json')):
    e = json.load(open(p))
    c = e['coverage']
    rows.append(f"| {e['property_id']} | {e['tier']} | {c.get('states')} | {c.get('transitions')} | {c.get('traces_validated_against_impl')} | {c.get('exhaustive')} | {e['wall_s']:.0f} |")
fill('COST', '\n'.join(rows))
open(D, 'w').write(s)
