#!/bin/bash
# usage: verify_seed.sh <ID> -- confirms a seeded change in a fresh scratch worktree:
#  builds, baseline tests pass, demo fails with the change and passes without it.
set -u
id=$1
src=${SEED_ROOT:-/tmp/seed}/$id
wt=/tmp/vseed_$id
export GOFLAGS=-mod=mod GOPROXY=off GOSUMDB=off
git -C /repo worktree remove --force $wt 2>/dev/null
git -C /repo worktree add -q $wt HEAD || exit 2
trap "git -C /repo worktree remove --force $wt" EXIT
demo=$(cd $src && git status --short | grep '^??' | awk '{print $2}' | grep '_test.go$' | grep -v '^SEED/' | head -1)
[ -z "$demo" ] && { echo "no demo test found"; exit 2; }
pkgdir=$(dirname $demo)
cp $src/$demo $wt/$demo
testname=$(grep -o 'func Test[A-Za-z0-9_]*' $src/$demo | head -1 | sed 's/func //')
cd $wt
echo "demo: $demo test=$testname"
r0=$(go test -vet=off -count=1 -run "^$testname\$" ./$pkgdir/ 2>&1 | tail -1)
echo "without change: $r0"
git apply $src/SEED/patch.diff || { echo "patch does not apply"; exit 2; }
go build ./... 2>&1 | grep -v "main_main\|^#" | head -3
r1=$(go test -vet=off -count=1 -run "^$testname\$" ./$pkgdir/ 2>&1 | tail -1)
echo "with change:    $r1"
rm $wt/$demo
# baseline on the changed tree
python3 - <<PY
import json, subprocess, os
base = json.load(open('/root/.vp/BASELINE.json'))
stable = set(base['stable_pass'])
p = subprocess.run(['go','test','-json','-vet=off','-count=1','-timeout','25m','./...'], cwd='$wt', capture_output=True, text=True)
passed=set()
for line in p.stdout.splitlines():
    try: ev=json.loads(line)
    except Exception: continue
    if 'Test' in ev and ev.get('Action')=='pass': passed.add(ev['Package']+'::'+ev['Test'])
missing=sorted(stable-passed)
print("baseline with change: passing", len(stable&passed), "of", len(stable), "missing:", missing)
PY
