#!/bin/bash
# usage: seed_regression.sh [seed ...]  -- applies each seeded change to /repo in turn, runs the quick
# check(s) expected to catch it, restores /repo. Prints one line per seed/check.
cd /verif
declare -A MAP=( [S01_C01]="C02" [S02_C02]="C09" [S03_C03]="C16 C03" [S04_C04]="C09 C04" [S05_C08]="C08" [S06_C09]="C09"
 [S07_C16]="C03" [S08_C19]="C19" [S09_C01]="C01" [S10_C03]="C03" [S11_C05]="C05" [S12_C06]="C06" [S13_C11]="C11"
 [S14_C12]="C12" [S15_C13]="C13" [S16_C14]="C14" [S17_C18]="C18" [S18_C20]="C20" [S19_C02]="C02" [S20_C04]="C04" [S21_C07]="C07" [S22_C09]="C09" [S23_C10]="C10" [S24_C15]="C15" [S25_C16]="C16" [S26_C19]="C19" [S27_C17]="C18 C17" [S28_C10]="C10" [S29_C11]="C11" [S30_C20]="C20" [S31_C05]="C05" [S32_C06]="C06" [S33_C13]="C13" [S34_C18]="C18" [S35_C01]="C01" [S36_C03]="C03" [S37_C08]="C08" [S38_C09]="C09" [S39_C12]="C12" [S40_C14]="C14" [S41_C16]="C16" [S42_C19]="C19" )
seeds="$@"; [ -z "$seeds" ] && seeds=$(ls seeded | sort)
for s in $seeds; do
  p=seeded/$s/patch.diff
  if ! git -C /repo apply --check $PWD/$p 2>/dev/null; then echo "$s: PATCH DOES NOT APPLY"; continue; fi
  out=$(bash tools/try_seed.sh $PWD/$p ${MAP[$s]} 2>&1)
  echo "$out" | grep "^== " | while read l; do echo "$s: $l"; done
done
