package interp

// Path state: decision replay, path condition, solver queries, events.

import (
	"fmt"
	"sort"
	"strings"
	"sync"

	"golang.org/x/tools/go/ssa"

	"verif/engine/sym"
)

type Outcome int

const (
	OutOK Outcome = iota
	OutInfeasible
	OutPanic
	OutDeadlock
	OutUnwind
	OutBudget
	OutUnsupported
	OutEngineError
	OutStopped // path stopped after an assertion that cannot hold
	OutPruned  // exploring scheduler: state already visited
)

func (o Outcome) String() string {
	return [...]string{"OK", "INFEASIBLE", "PANIC", "DEADLOCK", "UNWIND", "BUDGET", "UNSUPPORTED", "ENGINE-ERROR", "STOPPED", "PRUNED"}[o]
}

type InputRec struct {
	Name  string
	Kind  string // "bool","int","uint8",...,"float64","string","choice"
	Terms []*sym.Term
	Len   int // strings: chosen length
}

type EventKind int

const (
	EvAssertHolds EventKind = iota // discharged (unsat or concretely true)
	EvAssertViolated
	EvAssertUnknown
	EvKnownObserved
	EvReach
	EvPanicViolation
	EvPanicKnown
	EvDeadlockViolation
	EvObserve
	EvRace
)

type Event struct {
	Kind     EventKind
	ID       string // assertion id / finding id / reach id
	Model    map[string]uint64
	Msg      string
	Concrete bool
	Known    string // for violations that are inside a known region: the finding id
}

type region struct {
	id    string
	t     *sym.Term
	scope []string // assertion ids the region applies to; empty = everything (incl. panics)
}

func (r region) applies(assertID string) bool {
	if len(r.scope) == 0 {
		return true
	}
	for _, s := range r.scope {
		if s == assertID {
			return true
		}
	}
	return false
}

type PanicInfo struct {
	Msg     string
	Site    string
	Stack   []string
	Runtime bool
	Gor     int
}

type pathState struct {
	w      *Worker
	ctx    *sym.Ctx
	prefix []int64
	trace  []int64
	forks  [][]int64

	pc    []*sym.Term
	pcSet map[int]bool

	inputs    []*InputRec
	inputSeen map[string]int
	regions   []region
	events    []Event
	assumps   map[string]bool
	uninit    map[string]bool
	stubs     map[string]bool
	funcs     map[*ssa.Function]struct{}
	inexact   bool

	unwind     int
	stepBudget int64
	tracing    bool

	outcome    Outcome
	outcomeSet bool
	msg        string
	panicInfo  *PanicInfo

	// scheduler
	gors     []*gor
	cur      *gor
	main     *gor
	runq     []*gor
	dead     bool
	wg       sync.WaitGroup
	nextChan int
	mutexes  map[*value]*mutexState
	wgs      map[*value]*wgState
	onces    map[*value]*onceState
	explore  bool
	schedSeen map[string]bool
	kahnBroken []string
	clock    int64
	extra    map[string]interface{}
	schedBudget int
	schedSteps  int
	stateHook   func(g *gor)
	inDepInit   int
	curFrame    *frame
	bindings    map[*sym.Term]*sym.Term
	substMemo   map[int]*sym.Term
	blobs       []*protoBlob
	syncMaps    map[*value]*smap
	race        *raceState
}

func (st *pathState) noteUninit(g *ssa.Global) {
	if st.uninit == nil {
		st.uninit = map[string]bool{}
	}
	st.uninit[g.Pkg.Pkg.Path()+"."+g.Name()] = true
}

func (st *pathState) noteStub(name string) {
	st.stubs[name] = true
}

func (st *pathState) enterFn(fn *ssa.Function) {
	st.funcs[fn] = struct{}{}
}

// endPath terminates the path with the given outcome (first outcome wins).
func (st *pathState) endPath(o Outcome, msg string) {
	if !st.outcomeSet {
		st.outcomeSet = true
		st.outcome = o
		st.msg = msg
	}
	panic(engineAbort{})
}

func (st *pathState) unsupported(msg string) {
	if st.curFrame != nil {
		msg += " @ " + strings.Join(st.curFrame.stack(), " < ")
	}
	st.endPath(OutUnsupported, msg)
}

func (st *pathState) engineError(msg string) {
	if st.curFrame != nil {
		first, rest, _ := strings.Cut(msg, "\n")
		msg = first + " | target stack: " + strings.Join(st.curFrame.stack(), " < ") + "\n" + rest
	}
	if !st.outcomeSet {
		st.outcomeSet = true
		st.outcome = OutEngineError
		st.msg = msg
	}
}

func (st *pathState) addPC(t *sym.Term) {
	if t.IsTrue() {
		return
	}
	st.pc = append(st.pc, t)
	st.markTrue(t)
}

func (st *pathState) markTrue(t *sym.Term) {
	st.pcSet[t.ID] = true
	if t.Op == sym.OpEq {
		a, b := t.Args[0], t.Args[1]
		if a.Op == sym.OpVar && b.IsConst() {
			st.bind(a, b)
		} else if b.Op == sym.OpVar && a.IsConst() {
			st.bind(b, a)
		}
	} else if t.Op == sym.OpVar && t.Kind == sym.KBool {
		st.bind(t, st.ctx.True)
	} else if t.Op == sym.OpNot && t.Args[0].Op == sym.OpVar {
		st.bind(t.Args[0], st.ctx.False)
	}
	switch t.Op {
	case sym.OpAnd:
		for _, a := range t.Args {
			st.markTrue(a)
		}
	case sym.OpNot:
		if o := t.Args[0]; o.Op == sym.OpOr {
			for _, a := range o.Args {
				st.markTrue(st.ctx.Not(a))
			}
		}
	}
}

func (st *pathState) bind(v, c *sym.Term) {
	if st.bindings == nil {
		st.bindings = map[*sym.Term]*sym.Term{}
	}
	if _, ok := st.bindings[v]; ok {
		return
	}
	st.bindings[v] = c
	st.substMemo = map[int]*sym.Term{}
}

// simp folds t under the variable bindings implied by the path condition.
func (st *pathState) simp(t *sym.Term) *sym.Term {
	if len(st.bindings) == 0 || t.IsConst() {
		return t
	}
	return st.ctx.Subst(t, st.bindings, st.substMemo)
}

// known returns (value, true) if the truth of c is syntactically determined by the path condition.
func (st *pathState) known(c *sym.Term) (bool, bool) {
	c = st.simp(c)
	if c.IsTrue() {
		return true, true
	}
	if c.IsFalse() {
		return false, true
	}
	if st.pcSet[c.ID] {
		return true, true
	}
	if st.pcSet[st.ctx.Not(c).ID] {
		return false, true
	}
	return false, false
}

func (st *pathState) replaying() bool { return len(st.trace) < len(st.prefix) }

// branch decides a symbolic condition, forking when both sides are feasible.
func (st *pathState) branch(c *sym.Term) bool {
	c = st.simp(c)
	if v, ok := st.known(c); ok {
		return v
	}
	nc := st.ctx.Not(c)
	k := len(st.trace)
	if k < len(st.prefix) {
		d := st.prefix[k]
		st.trace = append(st.trace, d)
		if d == 1 {
			st.addPC(c)
			return true
		}
		st.addPC(nc)
		return false
	}
	s := st.w.solver
	rT := s.Check(st.pc, c)
	if rT == sym.Unknown {
		st.inexact = true
	}
	if rT == sym.Unsat {
		st.trace = append(st.trace, 0)
		st.addPC(nc)
		return false
	}
	rF := s.Check(st.pc, nc)
	if rF == sym.Unknown {
		st.inexact = true
	}
	if rF == sym.Unsat {
		st.trace = append(st.trace, 1)
		st.addPC(c)
		return true
	}
	// both feasible: fork
	alt := append(append([]int64{}, st.trace...), 0)
	st.forks = append(st.forks, alt)
	st.trace = append(st.trace, 1)
	st.addPC(c)
	return true
}

// choose picks one of n alternatives, alternative i being guarded by cons(i).
// Every feasible alternative is explored (one now, the others as forks).
func (st *pathState) choose(n int, cons func(i int) *sym.Term) int {
	if n <= 0 {
		st.endPath(OutInfeasible, "choose over empty set")
	}
	k := len(st.trace)
	if k < len(st.prefix) {
		d := int(st.prefix[k])
		st.trace = append(st.trace, int64(d))
		st.addPC(cons(d))
		return d
	}
	first := -1
	s := st.w.solver
	for i := 0; i < n; i++ {
		c := cons(i)
		feasible := false
		if v, ok := st.known(c); ok {
			feasible = v
		} else {
			r := s.Check(st.pc, c)
			if r == sym.Unknown {
				st.inexact = true
			}
			feasible = r != sym.Unsat
		}
		if !feasible {
			continue
		}
		if first < 0 {
			first = i
		} else {
			alt := append(append([]int64{}, st.trace...), int64(i))
			st.forks = append(st.forks, alt)
		}
	}
	if first < 0 {
		st.endPath(OutInfeasible, "no feasible alternative")
	}
	st.trace = append(st.trace, int64(first))
	st.addPC(cons(first))
	return first
}

// chooseFree is an n-way choice without constraints (scheduling decisions).
func (st *pathState) chooseFree(n int) int {
	if n == 1 {
		return 0
	}
	k := len(st.trace)
	if k < len(st.prefix) {
		d := int(st.prefix[k])
		st.trace = append(st.trace, int64(d))
		return d
	}
	for i := 1; i < n; i++ {
		alt := append(append([]int64{}, st.trace...), int64(i))
		st.forks = append(st.forks, alt)
	}
	st.trace = append(st.trace, 0)
	return 0
}

// concretize enumerates the feasible values of a symbolic integer.
func (st *pathState) concretize(s *symv) int64 {
	ctx := st.ctx
	w := kindWidth(s.K)
	for n := 0; n < 64; n++ {
		var v int64
		k := len(st.trace)
		if k < len(st.prefix) {
			v = st.prefix[k]
			st.trace = append(st.trace, v)
		} else {
			// ask the solver for a value of the term through a helper variable
			hv := ctx.BVVar(fmt.Sprintf("conc!%d", s.T.ID), w)
			r, m := st.w.solver.CheckModel(st.pc, []*sym.Term{hv}, ctx.Eq(hv, s.T))
			if r != sym.Sat {
				if r == sym.Unknown {
					st.inexact = true
					st.unsupported("cannot concretize a symbolic integer (solver unknown)")
				}
				st.endPath(OutInfeasible, "concretize: infeasible")
			}
			bits := m[hv.Name]
			if kindSigned(s.K) {
				v = ctx.BV(bits, w).ConstInt64()
			} else {
				v = int64(bits)
			}
			st.trace = append(st.trace, v)
		}
		if st.branch(ctx.Eq(s.T, ctx.BV(uint64(v), w))) {
			return v
		}
	}
	st.unsupported("more than 64 feasible values when concretizing a symbolic integer")
	return 0
}

// assume adds c to the path condition, ending the path if it is infeasible.
func (st *pathState) assume(c *sym.Term) {
	c = st.simp(c)
	if v, ok := st.known(c); ok {
		if !v {
			st.endPath(OutInfeasible, "assumption false")
		}
		return
	}
	if !st.replaying() {
		r := st.w.solver.Check(st.pc, c)
		if r == sym.Unsat {
			st.endPath(OutInfeasible, "assumption infeasible")
		}
		if r == sym.Unknown {
			st.inexact = true
		}
	}
	st.addPC(c)
}

func (st *pathState) assumeNoted(note string, c *sym.Term) {
	st.assumps[note] = true
	st.assume(c)
}

func (st *pathState) inputVars() []*sym.Term {
	var vs []*sym.Term
	for _, in := range st.inputs {
		vs = append(vs, in.Terms...)
	}
	return vs
}

func (st *pathState) inputName(name string) string {
	n := st.inputSeen[name]
	st.inputSeen[name] = n + 1
	if n == 0 {
		return name
	}
	return fmt.Sprintf("%s#%d", name, n)
}

// activeRegions returns the disjunction of the known-finding regions declared on this path.
func (st *pathState) regionTerm(assertID string) *sym.Term {
	var ts []*sym.Term
	for _, r := range st.regions {
		if r.applies(assertID) {
			ts = append(ts, r.t)
		}
	}
	return st.ctx.Or(ts...)
}

// checkViolation examines a failed condition "bad" (a term that is true exactly when the
// property is violated) under the current path condition and emits events.
// It returns true if bad is satisfiable at all.
func (st *pathState) checkViolation(id string, bad *sym.Term, kindViol EventKind, msg string) bool {
	ctx := st.ctx
	s := st.w.solver
	vars := st.inputVars()
	any := false
	outside := ctx.And(bad, ctx.Not(st.regionTerm(id)))
	r, m := s.CheckModel(st.pc, vars, outside)
	switch r {
	case sym.Sat:
		any = true
		st.events = append(st.events, Event{Kind: kindViol, ID: id, Model: m, Msg: msg})
	case sym.Unknown:
		st.inexact = true
		st.events = append(st.events, Event{Kind: EvAssertUnknown, ID: id, Msg: msg})
	}
	for _, rg := range st.regions {
		if !rg.applies(id) {
			continue
		}
		in := ctx.And(bad, rg.t)
		if in.IsFalse() {
			continue
		}
		r2, m2 := s.CheckModel(st.pc, vars, in)
		if r2 == sym.Sat {
			any = true
			st.events = append(st.events, Event{Kind: EvKnownObserved, ID: rg.id, Model: m2, Msg: id + ": " + msg})
		} else if r2 == sym.Unknown {
			st.inexact = true
		}
	}
	return any
}

// doAssert implements vAssert.
func (st *pathState) doAssert(id string, c *sym.Term) {
	ctx := st.ctx
	c = st.simp(c)
	if c.IsTrue() {
		st.events = append(st.events, Event{Kind: EvAssertHolds, ID: id, Concrete: true})
		return
	}
	if st.replaying() && !c.IsFalse() {
		// already examined by the path this one was forked from
		st.addPC(c)
		return
	}
	if v, ok := st.known(c); ok && v {
		st.events = append(st.events, Event{Kind: EvAssertHolds, ID: id})
		return
	}
	bad := ctx.Not(c)
	n0 := len(st.events)
	any := st.checkViolation(id, bad, EvAssertViolated, "assertion "+id+" can fail")
	if !any && len(st.events) == n0 {
		st.events = append(st.events, Event{Kind: EvAssertHolds, ID: id})
		st.addPC(c) // entailed: keep it as a fact (cheap fast path later)
		return
	}
	// continue only where the assertion holds
	if c.IsFalse() {
		st.endPath(OutStopped, "assertion "+id+" fails on the whole path")
	}
	if st.w.solver.Check(st.pc, c) == sym.Unsat {
		st.endPath(OutStopped, "assertion "+id+" fails on the whole path")
	}
	st.addPC(c)
}

func (st *pathState) describeGors() string {
	var sb strings.Builder
	for _, g := range st.gors {
		if g.done {
			continue
		}
		state := "runnable"
		if g.blocked {
			state = "blocked: " + g.waitDesc
		}
		fmt.Fprintf(&sb, "g%d[%s] %s; ", g.id, g.name, state)
	}
	return sb.String()
}

func sortedKeys(m map[string]bool) []string {
	var ks []string
	for k := range m {
		ks = append(ks, k)
	}
	sort.Strings(ks)
	return ks
}
