package interp

import (
	"fmt"
	"sync"
	"sync/atomic"
	"time"

	"verif/engine/sym"
)

// Second-solver cross-check (DESIGN.md 3.4): a sample of the queries the
// primary solver answered unsat - assertion discharges and pruned branches
// alike, since a wrong unsat in either place hides a violation - is rendered as
// a standalone SMT-LIB2 script and put to other solvers (z3 5.1.0 as z3-new,
// cvc5). A second solver answering sat makes the harness inconclusive.

type CrossStat struct {
	Solver   string  `json:"solver"`
	Queries  int     `json:"queries"`
	Agree    int     `json:"unsat_confirmed"`
	Disagree int     `json:"answered_sat"`
	Unknown  int     `json:"unknown_or_timeout"`
	TimeS    float64 `json:"time_s"`
}

type crossChecker struct {
	every   int64
	max     int64
	solvers []string
	timeout int

	seen    atomic.Int64
	taken   atomic.Int64
	skipped atomic.Int64
	ch      chan string
	wg      sync.WaitGroup
	mu      sync.Mutex
	stats   map[string]*CrossStat
	bad     []string
}

func newCrossChecker(solvers []string, every, max int, timeoutMs int) *crossChecker {
	c := &crossChecker{every: int64(every), max: int64(max), solvers: solvers, timeout: timeoutMs, ch: make(chan string, 256), stats: map[string]*CrossStat{}}
	for _, s := range solvers {
		c.stats[s] = &CrossStat{Solver: s}
	}
	for k := 0; k < 3; k++ {
		c.wg.Add(1)
		go func(k int) {
			defer c.wg.Done()
			n := k
			for script := range c.ch {
				kind := c.solvers[n%len(c.solvers)]
				n++
				t0 := time.Now()
				r := sym.RunScript(kind, script, c.timeout)
				dt := time.Since(t0).Seconds()
				c.mu.Lock()
				st := c.stats[kind]
				st.Queries++
				st.TimeS += dt
				switch r {
				case sym.Unsat:
					st.Agree++
				case sym.Sat:
					st.Disagree++
					if len(c.bad) < 3 {
						c.bad = append(c.bad, fmt.Sprintf("%s answers sat where z3 answered unsat:\n%s", kind, script))
					}
				default:
					st.Unknown++
				}
				c.mu.Unlock()
			}
		}(k)
	}
	return c
}

func (c *crossChecker) sample() bool {
	n := c.seen.Add(1)
	if n%c.every != 1 && c.every > 1 {
		return false
	}
	if c.taken.Load() >= c.max {
		return false
	}
	c.taken.Add(1)
	return true
}

func (c *crossChecker) sink(script string) {
	select {
	case c.ch <- script:
	default:
		c.skipped.Add(1) // queue full: never hold a worker up
	}
}

func (c *crossChecker) finish() ([]*CrossStat, []string) {
	close(c.ch)
	c.wg.Wait()
	var out []*CrossStat
	for _, s := range c.solvers {
		out = append(out, c.stats[s])
	}
	return out, c.bad
}
