// Copyright 2013 The Go Authors. All rights reserved.
// Use of this source code is governed by a BSD-style
// license that can be found in the LICENSE file (LICENSE.x-tools).
//
// Package interp is a symbolic executor for Go SSA, derived from
// golang.org/x/tools/go/ssa/interp (v0.29.0). Differences from the original:
//   - scalar values may be SMT terms (symv), strings may have symbolic bytes (sstr);
//   - branching on a symbolic condition consults the path state (decision replay +
//     solver feasibility queries) instead of a Go bool;
//   - goroutines, channels, select, sync primitives are modelled and scheduled
//     cooperatively and deterministically;
//   - Go runtime panics of the target are raised explicitly (targetPanic), engine
//     failures are kept apart (engineAbort);
//   - maps are insertion ordered so that re-execution is deterministic.
package interp

import (
	"fmt"
	"go/constant"
	"go/token"
	"go/types"
	"os"
	"runtime"
	"runtime/debug"
	"slices"
	"strings"
	"sync"

	"golang.org/x/tools/go/ssa"
)

type continuation int

const (
	kNext continuation = iota
	kReturn
	kJump
)

type methodSet map[string]*ssa.Function

// Program is the immutable, shared part: SSA program plus lookup tables.
type Program struct {
	Prog               *ssa.Program
	Sizes              types.Sizes
	reflectPackage     *ssa.Package
	errorMethods       methodSet
	rtypeMethods       methodSet
	runtimeErrorString types.Type
	errorsErrorString  types.Type // *errors.errorString
	InitAllow          func(pkgPath string) bool
	NoopPkgs           map[string]bool // functions of these packages are no-ops returning zero values
	Redirects          map[string]*ssa.Function

	mu       sync.Mutex
	fnName   sync.Map // *ssa.Function -> string
	harnessFn sync.Map // *ssa.Function -> bool (defined in a harness overlay file)
	extCache sync.Map // *ssa.Function -> externalFn (or nil marker)
	built    sync.Map // *ssa.Package -> bool
}

func NewProgram(prog *ssa.Program, sizes types.Sizes) *Program {
	P := &Program{Prog: prog, Sizes: sizes, NoopPkgs: map[string]bool{}, Redirects: map[string]*ssa.Function{}}
	runtimePkg := prog.ImportedPackage("runtime")
	if runtimePkg == nil {
		panic("ssa.Program doesn't include runtime package")
	}
	P.runtimeErrorString = runtimePkg.Type("errorString").Object().Type()
	if e := prog.ImportedPackage("errors"); e != nil {
		P.errorsErrorString = types.NewPointer(e.Type("errorString").Object().Type())
	}
	initReflect(P)
	return P
}

func (P *Program) name(fn *ssa.Function) string {
	if s, ok := P.fnName.Load(fn); ok {
		return s.(string)
	}
	s := fn.String()
	P.fnName.Store(fn, s)
	return s
}

// ensureBuilt builds the SSA bodies of fn's package on demand.
func (P *Program) ensureBuilt(fn *ssa.Function) {
	pkg := fn.Pkg
	if pkg == nil {
		if o := fn.Origin(); o != nil {
			pkg = o.Pkg
		}
	}
	if pkg == nil {
		return
	}
	if _, ok := P.built.Load(pkg); ok {
		return
	}
	P.mu.Lock()
	pkg.Build()
	P.built.Store(pkg, true)
	P.mu.Unlock()
}

// State of one path execution.
type interpreter struct {
	P       *Program
	prog    *ssa.Program
	globals map[*ssa.Global]*value
	st      *pathState
	sizes   types.Sizes
	steps   int64
	inited  map[*ssa.Package]bool

	reflectPackage     *ssa.Package
	errorMethods       methodSet
	rtypeMethods       methodSet
	runtimeErrorString types.Type
}

type deferred struct {
	fn    value
	args  []value
	instr *ssa.Defer
	tail  *deferred
}

type frame struct {
	i                *interpreter
	g                *gor
	caller           *frame
	fn               *ssa.Function
	block, prevBlock *ssa.BasicBlock
	env              map[ssa.Value]value // dynamic values of SSA variables
	locals           []value
	defers           *deferred
	result           value
	panicking        bool
	panic            interface{}
	phitemps         []value // temporaries for parallel phi assignment
	visits           map[*ssa.BasicBlock]int
	curInstr         ssa.Instruction
}

// engineAbort unwinds the whole path; it is never visible to the target program.
type engineAbort struct{}

// killedAbort unwinds a goroutine that is torn down at path end.
type killedAbort struct{}

func isEngineAbort(r interface{}) bool {
	switch r.(type) {
	case engineAbort, killedAbort:
		return true
	}
	return false
}

func (fr *frame) get(key ssa.Value) value {
	switch key := key.(type) {
	case nil:
		// Hack; simplifies handling of optional attributes
		// such as ssa.Slice.{Low,High}.
		return nil
	case *ssa.Function, *ssa.Builtin:
		return key
	case *ssa.Const:
		if rw := fr.i.st.w.eng.Opts.ConstRewrite; len(rw) > 0 {
			if v, ok := fr.rewriteConst(key, rw); ok {
				return v
			}
		}
		return constValue(key)
	case *ssa.Global:
		return fr.i.global(key)
	}
	if r, ok := fr.env[key]; ok {
		return r
	}
	panic(fmt.Sprintf("get: no value for %T: %v", key, key.Name()))
}

// rewriteConst: an integer constant of a function named in the const_rewrite
// option is executed with the configured value (noted as a stub in the evidence).
func (fr *frame) rewriteConst(c *ssa.Const, rw []ConstRewrite) (value, bool) {
	if c.Value == nil || c.Value.Kind() != constant.Int || fr.fn == nil {
		return nil, false
	}
	t, ok := c.Type().Underlying().(*types.Basic)
	if !ok || t.Kind() != types.Int {
		return nil, false
	}
	n, exact := constant.Int64Val(c.Value)
	if !exact {
		return nil, false
	}
	for _, r := range rw {
		if r.From == n && strings.Contains(fr.fn.String(), r.Func) {
			fr.i.st.noteStub(fmt.Sprintf("constant %d in %s executed as %d (const_rewrite)", n, fr.fn.String(), r.To))
			return int(r.To), true
		}
	}
	return nil, false
}

func (i *interpreter) global(g *ssa.Global) *value {
	if r, ok := i.globals[g]; ok {
		return r
	}
	cell := zero(mustDeref(g.Type()))
	p := &cell
	i.globals[g] = p
	if g.Pkg != nil && !i.inited[g.Pkg] && g.Name() != "init$guard" {
		i.st.noteUninit(g)
	}
	return p
}

// runDefer runs a deferred call d.
// It always returns normally, but may set or clear fr.panic.
func (fr *frame) runDefer(d *deferred) {
	var ok bool
	defer func() {
		if !ok {
			r := recover()
			if isEngineAbort(r) {
				panic(r)
			}
			// Deferred call created a new state of panic.
			fr.panicking = true
			fr.panic = fr.i.normalizePanic(r)
		}
	}()
	call(fr.i, fr, d.instr.Pos(), d.fn, d.args)
	ok = true
}

// runDefers executes fr's deferred function calls in LIFO order.
func (fr *frame) runDefers() {
	for d := fr.defers; d != nil; d = d.tail {
		fr.runDefer(d)
	}
	fr.defers = nil
	if fr.panicking {
		panic(fr.panic) // new panic, or still panicking
	}
}

// normalizePanic converts anything recovered in the engine into either a
// targetPanic (a panic of the interpreted program) or aborts the path with an
// engine error (a bug or an unsupported construct in the engine itself).
func (i *interpreter) normalizePanic(r interface{}) interface{} {
	switch p := r.(type) {
	case targetPanic:
		return p
	case runtime.Error:
		i.st.engineError(fmt.Sprintf("engine runtime error: %v\n%s", p, debug.Stack()))
	case string:
		i.st.engineError(fmt.Sprintf("engine panic: %s\n%s", p, debug.Stack()))
	default:
		i.st.engineError(fmt.Sprintf("engine panic: %T %v\n%s", p, p, debug.Stack()))
	}
	panic(engineAbort{})
}

// rtPanic raises a Go runtime panic of the target program.
func (i *interpreter) rtPanic(msg string) {
	panic(targetPanic{v: iface{t: i.runtimeErrorString, v: msg}, rt: true})
}

// lookupMethod returns the method set for type typ, which may be one
// of the interpreter's fake types.
func lookupMethod(i *interpreter, typ types.Type, meth *types.Func) *ssa.Function {
	switch typ {
	case rtypeType:
		return i.rtypeMethods[meth.Id()]
	case errorType:
		return i.errorMethods[meth.Id()]
	}
	return i.prog.LookupMethod(typ, meth.Pkg(), meth.Name())
}

func mustDeref(t types.Type) types.Type {
	if p, ok := t.Underlying().(*types.Pointer); ok {
		return p.Elem()
	}
	if tp, ok := t.(*types.TypeParam); ok {
		_ = tp
	}
	panic(fmt.Sprintf("mustDeref: not a pointer: %s", t))
}

func (fr *frame) derefCheck(p *value) *value {
	if p == nil {
		fr.i.rtPanic("invalid memory address or nil pointer dereference")
	}
	return p
}

// visitInstr interprets a single ssa.Instruction within the activation
// record frame.  It returns a continuation value indicating where to
// read the next instruction from.
func visitInstr(fr *frame, instr ssa.Instruction) continuation {
	i := fr.i
	switch instr := instr.(type) {
	case *ssa.DebugRef:
		// no-op

	case *ssa.UnOp:
		fr.env[instr] = unop(fr, instr, fr.get(instr.X))

	case *ssa.BinOp:
		fr.env[instr] = binop(fr, instr.Op, instr.X.Type(), fr.get(instr.X), fr.get(instr.Y))

	case *ssa.Call:
		fn, args := prepareCall(fr, &instr.Call)
		fr.env[instr] = call(fr.i, fr, instr.Pos(), fn, args)

	case *ssa.ChangeInterface:
		fr.env[instr] = fr.get(instr.X)

	case *ssa.ChangeType:
		fr.env[instr] = fr.get(instr.X) // (can't fail)

	case *ssa.Convert:
		fr.env[instr] = conv(fr, instr.Type(), instr.X.Type(), fr.get(instr.X))

	case *ssa.SliceToArrayPointer:
		fr.env[instr] = sliceToArrayPointer(fr, instr.Type(), instr.X.Type(), fr.get(instr.X))

	case *ssa.MakeInterface:
		fr.env[instr] = iface{t: instr.X.Type(), v: fr.get(instr.X)}

	case *ssa.Extract:
		fr.env[instr] = fr.get(instr.Tuple).(tuple)[instr.Index]

	case *ssa.Slice:
		fr.env[instr] = slice(fr, fr.get(instr.X), fr.get(instr.Low), fr.get(instr.High), fr.get(instr.Max))

	case *ssa.Return:
		switch len(instr.Results) {
		case 0:
		case 1:
			fr.result = fr.get(instr.Results[0])
		default:
			var res []value
			for _, r := range instr.Results {
				res = append(res, fr.get(r))
			}
			fr.result = tuple(res)
		}
		fr.block = nil
		return kReturn

	case *ssa.RunDefers:
		fr.runDefers()

	case *ssa.Panic:
		panic(targetPanic{v: fr.get(instr.X)})

	case *ssa.Send:
		chanSend(fr, fr.get(instr.Chan).(*schan), fr.get(instr.X))

	case *ssa.Store:
		addr := fr.derefCheck(fr.get(instr.Addr).(*value))
		if i.st.race != nil {
			i.st.raceCells(fr, mustDeref(instr.Addr.Type()), addr, true, instr.Pos())
		}
		store(mustDeref(instr.Addr.Type()), addr, fr.get(instr.Val))

	case *ssa.If:
		succ := 1
		if fr.truth(fr.get(instr.Cond)) {
			succ = 0
		}
		fr.prevBlock, fr.block = fr.block, fr.block.Succs[succ]
		return kJump

	case *ssa.Jump:
		fr.prevBlock, fr.block = fr.block, fr.block.Succs[0]
		return kJump

	case *ssa.Defer:
		fn, args := prepareCall(fr, &instr.Call)
		defers := &fr.defers
		if into := fr.get(instr.DeferStack); into != nil {
			defers = into.(**deferred)
		}
		*defers = &deferred{
			fn:    fn,
			args:  args,
			instr: instr,
			tail:  *defers,
		}

	case *ssa.Go:
		fn, args := prepareCall(fr, &instr.Call)
		i.st.spawn(fr, instr, fn, args)

	case *ssa.MakeChan:
		fr.env[instr] = i.st.newChan(int(fr.concInt(fr.get(instr.Size))), instr.Type().Underlying().(*types.Chan).Elem(), instr)

	case *ssa.Alloc:
		var addr *value
		if instr.Heap {
			// new
			addr = new(value)
			fr.env[instr] = addr
		} else {
			// local
			addr = fr.env[instr].(*value)
		}
		at := mustDeref(instr.Type())
		if rw := i.st.w.eng.Opts.ConstRewrite; len(rw) > 0 && instr.Comment == "makeslice" {
			// make([]T, n) / make([]T, 0, n) with a constant n is compiled to new([n]T)
			if arr, ok := at.Underlying().(*types.Array); ok {
				for _, r := range rw {
					if r.From == arr.Len() && strings.Contains(fr.fn.String(), r.Func) {
						i.st.noteStub(fmt.Sprintf("constant %d in %s executed as %d (const_rewrite)", r.From, fr.fn.String(), r.To))
						at = types.NewArray(arr.Elem(), r.To)
						break
					}
				}
			}
		}
		*addr = zero(at)

	case *ssa.MakeSlice:
		c := fr.concInt(fr.get(instr.Cap))
		l := fr.concInt(fr.get(instr.Len))
		if mc := int64(i.st.w.eng.Opts.MakeCap); mc > 0 && c > mc {
			// a huge scratch buffer (stated in the harness config): executed at the capped size
			i.st.noteStub(fmt.Sprintf("make([]T, %d) executed as make([]T, %d) (make_cap)", c, mc))
			c = mc
			if l > c {
				l = c
			}
		}
		if l < 0 || c < l || c > 1<<24 {
			i.rtPanic("makeslice: len out of range")
		}
		slice := make([]value, c)
		tElt := instr.Type().Underlying().(*types.Slice).Elem()
		for i := range slice {
			slice[i] = zero(tElt)
		}
		fr.env[instr] = slice[:l]

	case *ssa.MakeMap:
		fr.env[instr] = makeMap(instr.Type().Underlying().(*types.Map).Key(), 0)

	case *ssa.Range:
		if i.st.race != nil {
			if m, ok := fr.get(instr.X).(*smap); ok && m != nil {
				i.st.raceAccessCell(fr, m, false, instr.Pos())
			}
		}
		fr.env[instr] = rangeIter(fr, fr.get(instr.X), instr.X.Type())

	case *ssa.Next:
		fr.env[instr] = fr.get(instr.Iter).(iter).next()

	case *ssa.FieldAddr:
		p := fr.derefCheck(fr.get(instr.X).(*value))
		fr.env[instr] = &(*p).(structure)[instr.Field]

	case *ssa.Field:
		fr.env[instr] = fr.get(instr.X).(structure)[instr.Field]

	case *ssa.IndexAddr:
		x := fr.get(instr.X)
		idx := fr.get(instr.Index)
		switch x := x.(type) {
		case []value:
			k := fr.index(idx, len(x))
			fr.env[instr] = &x[k]
		case *value: // *array
			a := (*fr.derefCheck(x)).(array)
			k := fr.index(idx, len(a))
			fr.env[instr] = &a[k]
		default:
			panic(fmt.Sprintf("unexpected x type in IndexAddr: %T", x))
		}

	case *ssa.Index:
		x := fr.get(instr.X)
		idx := fr.get(instr.Index)

		switch x := x.(type) {
		case array:
			fr.env[instr] = x[fr.index(idx, len(x))]
		case string:
			fr.env[instr] = x[fr.index(idx, len(x))]
		case sstr:
			fr.env[instr] = x[fr.index(idx, len(x))]
		default:
			panic(fmt.Sprintf("unexpected x type in Index: %T", x))
		}

	case *ssa.Lookup:
		if i.st.race != nil {
			if m, ok := fr.get(instr.X).(*smap); ok && m != nil {
				i.st.raceAccessCell(fr, m, false, instr.Pos())
			}
		}
		fr.env[instr] = lookup(fr, instr, fr.get(instr.X), fr.get(instr.Index))

	case *ssa.MapUpdate:
		m := fr.get(instr.Map).(*smap)
		if m == nil {
			i.rtPanic("assignment to entry in nil map")
		}
		if i.st.race != nil {
			i.st.raceAccessCell(fr, m, true, instr.Pos())
		}
		m.insert(fr, fr.get(instr.Key), fr.get(instr.Value))

	case *ssa.TypeAssert:
		fr.env[instr] = typeAssert(fr.i, instr, fr.get(instr.X).(iface))

	case *ssa.MakeClosure:
		var bindings []value
		for _, binding := range instr.Bindings {
			bindings = append(bindings, fr.get(binding))
		}
		fr.env[instr] = &closure{instr.Fn.(*ssa.Function), bindings}

	case *ssa.Phi:
		panic("unreachable") // phis are processed at block entry

	case *ssa.Select:
		fr.env[instr] = doSelect(fr, instr)

	default:
		panic(fmt.Sprintf("unexpected instruction: %T", instr))
	}

	return kNext
}

// prepareCall determines the function value and argument values for a
// function call in a Call, Go or Defer instruction, performing
// interface method lookup if needed.
func prepareCall(fr *frame, call *ssa.CallCommon) (fn value, args []value) {
	v := fr.get(call.Value)
	if call.Method == nil {
		// Function call.
		fn = v
	} else {
		// Interface method invocation.
		recv := v.(iface)
		if recv.t == nil {
			fr.i.rtPanic("invalid memory address or nil pointer dereference (method " + call.Method.Name() + " invoked on nil interface)")
		}
		if f := lookupMethod(fr.i, recv.t, call.Method); f == nil {
			// Unreachable in well-typed programs.
			panic(fmt.Sprintf("method set for dynamic type %v does not contain %s", recv.t, call.Method))
		} else {
			fn = f
		}
		args = append(args, recv.v)
	}
	for _, arg := range call.Args {
		args = append(args, fr.get(arg))
	}
	return
}

// call interprets a call to a function (function, builtin or closure)
// fn with arguments args, returning its result.
// callpos is the position of the callsite.
func call(i *interpreter, caller *frame, callpos token.Pos, fn value, args []value) value {
	switch fn := fn.(type) {
	case *ssa.Function:
		if fn == nil {
			i.rtPanic("invalid memory address or nil pointer dereference (call of nil func)")
		}
		return callSSA(i, caller, callpos, fn, args, nil)
	case *closure:
		if fn == nil {
			i.rtPanic("invalid memory address or nil pointer dereference (call of nil func)")
		}
		return callSSA(i, caller, callpos, fn.Fn, args, fn.Env)
	case *ssa.Builtin:
		return callBuiltin(caller, callpos, fn, args)
	}
	panic(fmt.Sprintf("cannot call %T", fn))
}

func loc(fset *token.FileSet, pos token.Pos) string {
	if pos == token.NoPos {
		return ""
	}
	return " at " + fset.Position(pos).String()
}

// callSSA interprets a call to function fn with arguments args,
// and lexical environment env, returning its result.
// callpos is the position of the callsite.
func callSSA(i *interpreter, caller *frame, callpos token.Pos, fn *ssa.Function, args []value, env []value) value {
	fr := &frame{
		i:      i,
		caller: caller, // for panic/recover
		fn:     fn,
	}
	if caller != nil {
		fr.g = caller.g
	} else {
		fr.g = i.st.cur
	}
	if ext := i.P.external(fn); ext != nil {
		if i.st.race != nil && len(args) > 0 {
			if n := i.P.name(fn); strings.HasPrefix(n, "sync/atomic.") || strings.HasPrefix(n, "(*sync/atomic.") || strings.HasPrefix(n, "(*sync.Map).") {
				// atomics and sync.Map synchronise on their address
				if p, ok := args[0].(*value); ok && p != nil {
					i.st.raceAcquire(fr.g, p)
					r := ext(fr, args)
					i.st.raceRelease(fr.g, p)
					return r
				}
			}
		}
		return ext(fr, args)
	}
	// the package of fn may be under construction by another worker right now: its
	// functions then have partially built bodies (Blocks is set before the body is
	// finished), so wait for the package build before looking at the body
	i.P.ensureBuilt(fn)
	if fn.Blocks == nil {
		if fn.Blocks == nil {
			if i.st.inDepInit > 0 {
				i.st.noteStub("skipped in dependency init: " + i.P.name(fn))
				return zeroResults(fn.Signature.Results())
			}
			i.st.unsupported("no code for function: " + i.P.name(fn))
		}
	}

	// generic function body?
	if fn.TypeParams().Len() > 0 && len(fn.TypeArgs()) == 0 {
		panic("interp requires ssa.BuilderMode to include InstantiateGenerics to execute generics")
	}
	i.st.enterFn(fn)
	if i.st.tracing {
		fmt.Fprintf(os.Stderr, "%sEntering %s\n", strings.Repeat(" ", fr.depth()), i.P.name(fn))
	}
	if d := fr.depth(); d > 400 {
		i.st.endPath(OutUnwind, "call depth > 400 in "+i.P.name(fn))
	}

	fr.env = make(map[ssa.Value]value)
	fr.block = fn.Blocks[0]
	fr.locals = make([]value, len(fn.Locals))
	for i, l := range fn.Locals {
		fr.locals[i] = zero(mustDeref(l.Type()))
		fr.env[l] = &fr.locals[i]
	}
	for i, p := range fn.Params {
		fr.env[p] = args[i]
	}
	for i, fv := range fn.FreeVars {
		fr.env[fv] = env[i]
	}
	for fr.block != nil {
		runFrame(fr)
	}
	return fr.result
}

func (fr *frame) depth() int {
	d := 0
	for f := fr; f != nil; f = f.caller {
		d++
	}
	return d
}

// runFrame executes SSA instructions starting at fr.block and
// continuing until a return, a panic, or a recovered panic.
func runFrame(fr *frame) {
	defer func() {
		if fr.block == nil {
			return // normal return
		}
		r := recover()
		if isEngineAbort(r) {
			panic(r)
		}
		fr.panicking = true
		fr.panic = fr.i.normalizePanic(r)
		if tp, ok := fr.panic.(targetPanic); ok && tp.site == "" {
			tp.site = fr.site()
			tp.stack = fr.stack()
			fr.panic = tp
		}
		fr.runDefers()
		fr.block = fr.fn.Recover
	}()

	st := fr.i.st
	for {
		if n := len(fr.block.Preds); n > 1 {
			// potential loop header: count visits for the unwind bound
			if fr.visits == nil {
				fr.visits = map[*ssa.BasicBlock]int{}
			}
			fr.visits[fr.block]++
			if fr.visits[fr.block] > st.unwind {
				st.endPath(OutUnwind, fmt.Sprintf("unwind bound %d exceeded in %s block %d", st.unwind, fr.i.P.name(fr.fn), fr.block.Index))
			}
		}
		nonPhis := executePhis(fr)
		for _, instr := range nonPhis {
			fr.curInstr = instr
			st.curFrame = fr
			fr.i.steps++
			if fr.i.steps > st.stepBudget {
				st.endPath(OutBudget, fmt.Sprintf("step budget %d exceeded", st.stepBudget))
			}
			if st.tracing {
				if v, ok := instr.(ssa.Value); ok {
					fmt.Fprintln(os.Stderr, strings.Repeat(" ", fr.depth()), v.Name(), "=", instr)
				} else {
					fmt.Fprintln(os.Stderr, strings.Repeat(" ", fr.depth()), instr)
				}
			}
			if visitInstr(fr, instr) == kReturn {
				return
			}
			// Inv: kNext (continue) or kJump (last instr)
		}
	}
}

func (fr *frame) site() string {
	pos := token.NoPos
	if fr.curInstr != nil {
		pos = fr.curInstr.Pos()
	}
	s := fr.i.P.name(fr.fn)
	if pos != token.NoPos {
		p := fr.i.prog.Fset.Position(pos)
		s += fmt.Sprintf(" (%s:%d)", shortFile(p.Filename), p.Line)
	}
	return s
}

func shortFile(f string) string {
	if k := strings.Index(f, "/repo/"); k >= 0 {
		return f[k+6:]
	}
	if k := strings.Index(f, "/pkg/mod/"); k >= 0 {
		return f[k+9:]
	}
	return f
}

func (fr *frame) stack() []string {
	var out []string
	for f := fr; f != nil && len(out) < 12; f = f.caller {
		out = append(out, f.site())
	}
	return out
}

// executePhis executes the phi-nodes at the start of the current
// block and returns the non-phi instructions.
func executePhis(fr *frame) []ssa.Instruction {
	firstNonPhi := -1
	for i, instr := range fr.block.Instrs {
		if _, ok := instr.(*ssa.Phi); !ok {
			firstNonPhi = i
			break
		}
	}
	// Inv: 0 <= firstNonPhi; every block contains a non-phi.

	nonPhis := fr.block.Instrs[firstNonPhi:]
	if firstNonPhi > 0 {
		phis := fr.block.Instrs[:firstNonPhi]
		predIndex := slices.Index(fr.block.Preds, fr.prevBlock)
		fr.phitemps = fr.phitemps[:0]
		for _, phi := range phis {
			phi := phi.(*ssa.Phi)
			fr.phitemps = append(fr.phitemps, fr.get(phi.Edges[predIndex]))
		}
		for i, phi := range phis {
			fr.env[phi.(*ssa.Phi)] = fr.phitemps[i]
		}
	}
	return nonPhis
}

// doRecover implements the recover() built-in.
func doRecover(caller *frame) value {
	// recover() must be exactly one level beneath the deferred
	// function (two levels beneath the panicking function) to
	// have any effect.  Thus we ignore both "defer recover()" and
	// "defer f() -> g() -> recover()".
	if caller != nil && !caller.panicking &&
		caller.caller != nil && caller.caller.panicking {
		caller.caller.panicking = false
		p := caller.caller.panic
		caller.caller.panic = nil

		switch p := p.(type) {
		case targetPanic:
			// The target program explicitly called panic().
			return p.v
		default:
			panic(fmt.Sprintf("unexpected panic type %T in target call to recover()", p))
		}
	}
	return iface{}
}

// newInterpreter creates the per-path interpreter state.
func newInterpreter(P *Program, st *pathState) *interpreter {
	i := &interpreter{
		P:                  P,
		prog:               P.Prog,
		globals:            make(map[*ssa.Global]*value),
		st:                 st,
		sizes:              P.Sizes,
		inited:             map[*ssa.Package]bool{},
		reflectPackage:     P.reflectPackage,
		errorMethods:       P.errorMethods,
		rtypeMethods:       P.rtypeMethods,
		runtimeErrorString: P.runtimeErrorString,
	}
	return i
}

// runInit runs the package initializer of pkg (and, transitively, of the
// imported packages that pass P.InitAllow).
func (i *interpreter) runInit(pkg *ssa.Package) {
	if i.inited[pkg] {
		return
	}
	i.inited[pkg] = true
	if f := pkg.Func("init"); f != nil {
		i.P.ensureBuilt(f)
		call(i, nil, token.NoPos, f, nil)
	}
}
