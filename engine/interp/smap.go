package interp

// Insertion-ordered maps with symbolic-key support. Iteration order is the
// insertion order (Go's randomised order is not explored; stated in DESIGN.md).

import (
	"fmt"
	"go/types"
	"math"
	"strings"
)

type mentry struct {
	key     value
	val     value
	deleted bool
}

type smap struct {
	keyType types.Type
	entries []*mentry
	index   map[string]*mentry // concrete keys only
	symKeys int                // number of live entries whose key is not concretely encodable
	live    int
}

func makeMap(kt types.Type, reserve int64) value {
	return &smap{keyType: kt, index: map[string]*mentry{}}
}

// keyEnc returns a canonical encoding of a fully concrete, comparable key.
func keyEnc(v value, sb *strings.Builder) bool {
	switch v := v.(type) {
	case bool:
		fmt.Fprintf(sb, "b%v;", v)
	case int, int8, int16, int32, int64:
		fmt.Fprintf(sb, "i%d;", asInt64(v))
	case uint, uint8, uint16, uint32, uint64, uintptr:
		fmt.Fprintf(sb, "u%d;", asUint64(v))
	case float64:
		if v != v {
			return false
		}
		if v == 0 {
			v = 0 // +0 == -0
		}
		fmt.Fprintf(sb, "f%x;", math.Float64bits(v))
	case float32:
		if v != v {
			return false
		}
		fmt.Fprintf(sb, "g%v;", v)
	case string:
		fmt.Fprintf(sb, "s%d:%s;", len(v), v)
	case *value:
		fmt.Fprintf(sb, "p%p;", v)
	case *schan:
		fmt.Fprintf(sb, "c%p;", v)
	case iface:
		if v.t == nil {
			sb.WriteString("nil;")
			return true
		}
		fmt.Fprintf(sb, "I%s(", v.t.String())
		if !keyEnc(v.v, sb) {
			return false
		}
		sb.WriteString(");")
	case structure:
		sb.WriteString("S(")
		for _, f := range v {
			if !keyEnc(f, sb) {
				return false
			}
		}
		sb.WriteString(");")
	case array:
		sb.WriteString("A(")
		for _, f := range v {
			if !keyEnc(f, sb) {
				return false
			}
		}
		sb.WriteString(");")
	case rtype:
		fmt.Fprintf(sb, "T%s;", v.t.String())
	default:
		return false
	}
	return true
}

func encKey(v value) (string, bool) {
	var sb strings.Builder
	ok := keyEnc(v, &sb)
	return sb.String(), ok
}

func (m *smap) len() int {
	if m == nil {
		return 0
	}
	return m.live
}

// find returns the entry whose key equals k, deciding symbolic comparisons by
// branching on the path state.
func (m *smap) find(fr *frame, k value) *mentry {
	checkHashable(fr, k)
	if m == nil {
		return nil
	}
	enc, conc := encKey(k)
	if conc && m.symKeys == 0 {
		return m.index[enc]
	}
	if conc {
		if e := m.index[enc]; e != nil {
			return e
		}
	}
	for _, e := range m.entries {
		if e.deleted {
			continue
		}
		if conc {
			if _, econc := encKey(e.key); econc {
				continue // concrete vs concrete: already answered by the index
			}
		}
		t := eqTerm(fr, m.keyType, e.key, k)
		if fr.i.st.branch(t) {
			return e
		}
	}
	return nil
}

// checkHashable raises Go's "hash of unhashable type" runtime panic for a key
// holding an interface whose dynamic type is not comparable (any map access
// with such a key panics, also on an empty map).
func checkHashable(fr *frame, k value) {
	switch k := k.(type) {
	case iface:
		if k.t == nil {
			return
		}
		if !types.Comparable(k.t) {
			panic(targetPanic{v: iface{t: fr.i.runtimeErrorString, v: "hash of unhashable type " + k.t.String()}, rt: true})
		}
		checkHashable(fr, k.v)
	case structure:
		for _, f := range k {
			checkHashable(fr, f)
		}
	case array:
		for _, f := range k {
			checkHashable(fr, f)
		}
	}
}

func (m *smap) lookup(fr *frame, k value) (value, bool) {
	e := m.find(fr, k)
	if e == nil {
		return nil, false
	}
	return e.val, true
}

func (m *smap) insert(fr *frame, k, v value) {
	if e := m.find(fr, k); e != nil {
		e.val = v
		return
	}
	e := &mentry{key: k, val: v}
	m.entries = append(m.entries, e)
	m.live++
	if enc, conc := encKey(k); conc {
		m.index[enc] = e
	} else {
		m.symKeys++
	}
}

func (m *smap) delete(fr *frame, k value) {
	if m == nil {
		return
	}
	e := m.find(fr, k)
	if e == nil {
		return
	}
	e.deleted = true
	m.live--
	if enc, conc := encKey(e.key); conc {
		delete(m.index, enc)
	} else {
		m.symKeys--
	}
}

type smapIter struct {
	m *smap
	i int
	n int
}

func (m *smap) iterator() iter {
	if m == nil {
		return &smapIter{}
	}
	return &smapIter{m: m, n: len(m.entries)}
}

func (it *smapIter) next() tuple {
	for it.m != nil && it.i < len(it.m.entries) {
		e := it.m.entries[it.i]
		it.i++
		if e.deleted {
			continue
		}
		return tuple{true, e.key, e.val}
	}
	return tuple{false, nil, nil}
}
