package interp

// A model of fmt.Sprintf / fmt.Errorf / fmt.Sprint sufficient for the code
// under test: %s %v %d %q %T %w %x %f %t %c %%, with string results that keep
// symbolic bytes of string arguments.

import (
	"fmt"
	"go/types"
	"strconv"
	"strings"

	"golang.org/x/tools/go/ssa"
)

// nativeOf converts a concrete basic value to a Go value usable with package fmt.
func nativeOf(v value) (interface{}, bool) {
	switch v := v.(type) {
	case bool, int, int8, int16, int32, int64, uint, uint8, uint16, uint32, uint64, uintptr, float32, float64, string:
		return v, true
	}
	return nil, false
}

// stringify returns the bytes that %v / %s would print for an interface value.
func (fr *frame) stringify(a value, verb byte) []value {
	it, isIface := a.(iface)
	var dyn types.Type
	v := a
	if isIface {
		if it.t == nil {
			if verb == 's' {
				return strBytes("%!s(<nil>)")
			}
			return strBytes("<nil>")
		}
		dyn = it.t
		v = it.v
	}
	// error / Stringer
	if dyn != nil && verb != 'd' && verb != 'T' {
		if m := fr.methodByName(dyn, "Error"); m != nil {
			if p, ok := v.(*value); ok && p == nil {
				return strBytes("<nil>")
			}
			r := call(fr.i, fr, 0, m, []value{v})
			return strBytes(r)
		}
		if m := fr.methodByName(dyn, "String"); m != nil {
			if p, ok := v.(*value); ok && p == nil {
				return strBytes("<nil>")
			}
			r := call(fr.i, fr, 0, m, []value{v})
			if isStr(r) {
				return strBytes(r)
			}
		}
	}
	switch x := v.(type) {
	case string, sstr:
		if verb == 'q' {
			if s, ok := x.(string); ok {
				return strBytes(strconv.Quote(s))
			}
			fr.i.st.noteStub("fmt %q of a symbolic string approximated without escapes")
			return append(append([]value{uint8('"')}, strBytes(x)...), uint8('"'))
		}
		return strBytes(x)
	case *symv:
		fr.i.st.noteStub("fmt of a symbolic scalar printed as <sym>")
		return strBytes("<sym>")
	case []value:
		// []byte with %s
		if dyn != nil {
			if sl, ok := dyn.Underlying().(*types.Slice); ok {
				if b, ok := sl.Elem().Underlying().(*types.Basic); ok && b.Kind() == types.Byte && (verb == 's' || verb == 'q') {
					return x
				}
			}
		}
		out := []value{uint8('[')}
		for i, e := range x {
			if i > 0 {
				out = append(out, uint8(' '))
			}
			out = append(out, fr.stringify(e, verb)...)
		}
		return append(out, uint8(']'))
	}
	if n, ok := nativeOf(v); ok {
		return strBytes(fmt.Sprintf("%"+string(verb), n))
	}
	fr.i.st.noteStub("fmt of a composite value printed in println style")
	return strBytes(toString(v))
}

func (fr *frame) methodByName(t types.Type, name string) *ssa.Function {
	ms := fr.i.prog.MethodSets.MethodSet(t)
	for k := 0; k < ms.Len(); k++ {
		sel := ms.At(k)
		if sel.Obj().Name() == name {
			sig := sel.Obj().Type().(*types.Signature)
			if sig.Params().Len() == 0 && sig.Results().Len() == 1 {
				if b, ok := sig.Results().At(0).Type().Underlying().(*types.Basic); ok && b.Kind() == types.String {
					if f := fr.i.prog.MethodValue(sel); f != nil {
						return f
					}
				}
			}
		}
	}
	return nil
}

func (fr *frame) sprintf(format value, args []value) value {
	f, ok := format.(string)
	if !ok {
		fr.i.st.unsupported("fmt with a symbolic format string")
	}
	out := []value{}
	ai := 0
	for i := 0; i < len(f); i++ {
		c := f[i]
		if c != '%' {
			out = append(out, c)
			continue
		}
		// parse flags/width/precision
		j := i + 1
		for j < len(f) && strings.IndexByte("+-# 0123456789.", f[j]) >= 0 {
			j++
		}
		if j >= len(f) {
			out = append(out, strBytes("%!(NOVERB)")...)
			break
		}
		verb := f[j]
		spec := f[i : j+1]
		i = j
		if verb == '%' {
			out = append(out, uint8('%'))
			continue
		}
		if ai >= len(args) {
			out = append(out, strBytes("%!"+string(verb)+"(MISSING)")...)
			continue
		}
		a := args[ai]
		ai++
		it, _ := a.(iface)
		switch verb {
		case 'T':
			if it.t == nil {
				out = append(out, strBytes("<nil>")...)
			} else {
				out = append(out, strBytes(it.t.String())...)
			}
		case 's', 'v', 'q', 'w':
			vb := verb
			if vb == 'w' {
				vb = 'v'
			}
			if spec != "%"+string(verb) {
				if n, ok := nativeOf(it.v); ok {
					out = append(out, strBytes(fmt.Sprintf(spec, n))...)
					continue
				}
				if spec == "%#v" {
					fr.i.st.noteStub("fmt %#v printed in println style with type prefix")
					if it.t == nil {
						out = append(out, strBytes("<nil>")...)
					} else {
						out = append(out, strBytes(it.t.String()+toStringSym(it.v))...)
					}
					continue
				}
			}
			out = append(out, fr.stringify(a, vb)...)
		default:
			if n, ok := nativeOf(it.v); ok {
				out = append(out, strBytes(fmt.Sprintf(spec, n))...)
			} else {
				out = append(out, fr.stringify(a, verb)...)
			}
		}
	}
	if ai < len(args) {
		out = append(out, strBytes("%!(EXTRA)")...)
	}
	return mkStr(out)
}

// toStringSym is toString but keeps symbolic parts distinguishable by term id.
func toStringSym(v value) string {
	return toString(v)
}

func ext۰fmt۰Sprintf(fr *frame, args []value) value {
	return fr.sprintf(args[0], args[1].([]value))
}

func ext۰fmt۰Errorf(fr *frame, args []value) value {
	msg := fr.sprintf(args[0], args[1].([]value))
	s := value(structure{msg})
	return iface{t: fr.i.P.errorsErrorString, v: &s}
}

func ext۰fmt۰Sprint(fr *frame, args []value) value {
	out := []value{}
	for i, a := range args[0].([]value) {
		if i > 0 {
			out = append(out, uint8(' '))
		}
		out = append(out, fr.stringify(a, 'v')...)
	}
	return mkStr(out)
}
