package interp

// The harness API: functions named v* in the harness package are intercepted
// here in symbolic mode (their Go bodies serve native replay).

import (
	"fmt"
	"go/types"
	"strings"

	"verif/engine/sym"
)

var hapi map[string]externalFn

func init() {
	hapi = map[string]externalFn{
		"vNondetBool":    hNondetBool,
		"vNondetInt":     hNondetInt,
		"vNondetByte":    func(fr *frame, a []value) value { return hNondetScalar(fr, a, types.Uint8, "uint8") },
		"vNondetInt32":   func(fr *frame, a []value) value { return hNondetScalar(fr, a, types.Int32, "int32") },
		"vNondetUint32":  func(fr *frame, a []value) value { return hNondetScalar(fr, a, types.Uint32, "uint32") },
		"vNondetInt64":   func(fr *frame, a []value) value { return hNondetScalar(fr, a, types.Int64, "int64") },
		"vNondetUint64":  func(fr *frame, a []value) value { return hNondetScalar(fr, a, types.Uint64, "uint64") },
		"vNondetFloat64": hNondetFloat64,
		"vNondetString":  hNondetString,
		"vNondetStringN": hNondetStringN,
		"vChoice":        hChoice,
		"vAssume":        hAssume,
		"vAssert":        hAssert,
		"vKnown":         hKnown,
		"vKnownFor":      hKnown,
		"vReach":         hReach,
		"vObserve":       func(fr *frame, a []value) value { return nil },
		"vSymbolic":      func(fr *frame, a []value) value { return true },
		"vBlockedGoroutines": hBlockedGoroutines,
		"vYield":         func(fr *frame, a []value) value { fr.i.st.yield(fr.g); return nil },
		"vParam":         hParam,
		"vNote":          func(fr *frame, a []value) value { fr.i.st.assumps[concStr(fr, a[0])] = true; return nil },
	}
}

func concStr(fr *frame, v value) string {
	s, ok := v.(string)
	if !ok {
		fr.i.st.unsupported("harness API called with a symbolic name")
	}
	return s
}

func hNondetBool(fr *frame, a []value) value {
	st := fr.i.st
	name := st.inputName(concStr(fr, a[0]))
	v := st.ctx.BoolVar(name)
	st.inputs = append(st.inputs, &InputRec{Name: name, Kind: "bool", Terms: []*sym.Term{v}})
	return &symv{T: v, K: types.Bool}
}

func hNondetInt(fr *frame, a []value) value {
	st := fr.i.st
	ctx := st.ctx
	name := st.inputName(concStr(fr, a[0]))
	lo, hi := fr.concInt(a[1]), fr.concInt(a[2])
	if lo == hi {
		return int(lo)
	}
	v := ctx.BVVar(name, 64)
	st.inputs = append(st.inputs, &InputRec{Name: name, Kind: "int", Terms: []*sym.Term{v}})
	st.addPC(ctx.And(ctx.SLe(ctx.BV(uint64(lo), 64), v), ctx.SLe(v, ctx.BV(uint64(hi), 64))))
	return &symv{T: v, K: types.Int}
}

func hNondetScalar(fr *frame, a []value, k types.BasicKind, kind string) value {
	st := fr.i.st
	name := st.inputName(concStr(fr, a[0]))
	v := st.ctx.BVVar(name, kindWidth(k))
	st.inputs = append(st.inputs, &InputRec{Name: name, Kind: kind, Terms: []*sym.Term{v}})
	return &symv{T: v, K: k}
}

func hNondetFloat64(fr *frame, a []value) value {
	st := fr.i.st
	name := st.inputName(concStr(fr, a[0]))
	v := st.ctx.BVVar(name, 64)
	st.inputs = append(st.inputs, &InputRec{Name: name, Kind: "float64", Terms: []*sym.Term{v}})
	return &symv{T: st.ctx.FFromBits(v), K: types.Float64}
}

// choiceVar introduces an eagerly case-split choice in [0,n).
func (st *pathState) choiceVar(name string, n int) int {
	ctx := st.ctx
	v := ctx.BVVar(name, 16)
	st.inputs = append(st.inputs, &InputRec{Name: name, Kind: "choice", Terms: []*sym.Term{v}})
	return st.choose(n, func(i int) *sym.Term { return ctx.Eq(v, ctx.BV(uint64(i), 16)) })
}

func hChoice(fr *frame, a []value) value {
	st := fr.i.st
	name := st.inputName(concStr(fr, a[0]))
	n := int(fr.concInt(a[1]))
	if n <= 1 {
		return 0
	}
	return st.choiceVar(name, n)
}

func (st *pathState) symString(name string, n int) value {
	ctx := st.ctx
	rec := &InputRec{Name: name, Kind: "string", Len: n}
	bs := make([]value, n)
	for i := 0; i < n; i++ {
		v := ctx.BVVar(fmt.Sprintf("%s.%d", name, i), 8)
		rec.Terms = append(rec.Terms, v)
		bs[i] = &symv{T: v, K: types.Uint8}
	}
	st.inputs = append(st.inputs, rec)
	return mkStr(bs)
}

func hNondetString(fr *frame, a []value) value {
	st := fr.i.st
	name := st.inputName(concStr(fr, a[0]))
	maxLen := int(fr.concInt(a[1]))
	n := 0
	if maxLen > 0 {
		n = st.choiceVar(name+".len", maxLen+1)
	}
	return st.symString(name, n)
}

func hNondetStringN(fr *frame, a []value) value {
	st := fr.i.st
	name := st.inputName(concStr(fr, a[0]))
	return st.symString(name, int(fr.concInt(a[1])))
}

func hAssume(fr *frame, a []value) value {
	fr.i.st.assume(boolTerm(fr.i.st.ctx, a[0]))
	return nil
}

func hAssert(fr *frame, a []value) value {
	fr.i.st.doAssert(concStr(fr, a[0]), boolTerm(fr.i.st.ctx, a[1]))
	return nil
}

func hKnown(fr *frame, a []value) value {
	st := fr.i.st
	id := concStr(fr, a[0])
	t := boolTerm(st.ctx, a[1])
	if t.IsFalse() {
		return nil
	}
	if af := st.w.eng.Opts.ActiveFindings; af != nil && !af[id] {
		return nil // not listed (or listed as fixed): suppresses nothing
	}
	rg := region{id: id, t: t}
	if len(a) > 2 {
		for _, s := range strings.Split(concStr(fr, a[2]), ",") {
			if s = strings.TrimSpace(s); s != "" {
				rg.scope = append(rg.scope, s)
			}
		}
	}
	st.regions = append(st.regions, rg)
	return nil
}

func hReach(fr *frame, a []value) value {
	st := fr.i.st
	if !st.replaying() {
		st.events = append(st.events, Event{Kind: EvReach, ID: concStr(fr, a[0])})
	}
	return nil
}

// hBlockedGoroutines lets every runnable goroutine run until it ends or blocks,
// then returns the number of goroutines that are still blocked (leaked).
func hBlockedGoroutines(fr *frame, a []value) value {
	st := fr.i.st
	for k := 0; k < 10000 && len(st.runq) > 0; k++ {
		st.yield(fr.g)
	}
	n := 0
	for _, g := range st.gors {
		if !g.done && g != fr.g {
			n++
		}
	}
	return n
}

// deepEqTerm is reflect.DeepEqual over interpreter values (interface operands).
func deepEqTerm(fr *frame, x, y value, depth int) *sym.Term {
	ctx := fr.i.st.ctx
	if depth > 48 {
		fr.i.st.unsupported("reflect.DeepEqual: depth > 48")
	}
	xi, xok := x.(iface)
	yi, yok := y.(iface)
	if xok != yok {
		return ctx.False
	}
	if xok {
		if !sameType(xi.t, yi.t) {
			return ctx.False
		}
		if xi.t == nil {
			return ctx.True
		}
		return deepEqTyped(fr, xi.t, xi.v, yi.v, depth)
	}
	panic(fmt.Sprintf("deepEqTerm: non-interface operands %T %T", x, y))
}

func deepEqTyped(fr *frame, t types.Type, x, y value, depth int) *sym.Term {
	ctx := fr.i.st.ctx
	switch tt := t.Underlying().(type) {
	case *types.Basic:
		if tt.Info()&types.IsFloat != 0 {
			return ctx.FEq(termOf(ctx, x), termOf(ctx, y))
		}
		return eqTerm(fr, t, x, y)
	case *types.Slice:
		xs, ys := x.([]value), y.([]value)
		if (xs == nil) != (ys == nil) || len(xs) != len(ys) {
			return ctx.False
		}
		var cs []*sym.Term
		for i := range xs {
			cs = append(cs, deepEqTyped(fr, tt.Elem(), xs[i], ys[i], depth+1))
		}
		return ctx.And(cs...)
	case *types.Array:
		xs, ys := x.(array), y.(array)
		var cs []*sym.Term
		for i := range xs {
			cs = append(cs, deepEqTyped(fr, tt.Elem(), xs[i], ys[i], depth+1))
		}
		return ctx.And(cs...)
	case *types.Struct:
		xs, ys := x.(structure), y.(structure)
		var cs []*sym.Term
		for i := range xs {
			cs = append(cs, deepEqTyped(fr, tt.Field(i).Type(), xs[i], ys[i], depth+1))
		}
		return ctx.And(cs...)
	case *types.Interface:
		return deepEqTerm(fr, x, y, depth+1)
	case *types.Pointer:
		xp, yp := x.(*value), y.(*value)
		if xp == yp {
			return ctx.True
		}
		if xp == nil || yp == nil {
			return ctx.False
		}
		return deepEqTyped(fr, tt.Elem(), *xp, *yp, depth+1)
	case *types.Map:
		xm, ym := x.(*smap), y.(*smap)
		if (xm == nil) != (ym == nil) || xm.len() != ym.len() {
			return ctx.False
		}
		if xm == ym {
			return ctx.True
		}
		var cs []*sym.Term
		for _, e := range xm.entries {
			if e.deleted {
				continue
			}
			v, ok := ym.lookup(fr, e.key)
			if !ok {
				return ctx.False
			}
			cs = append(cs, deepEqTyped(fr, tt.Elem(), e.val, v, depth+1))
		}
		return ctx.And(cs...)
	case *types.Signature:
		return ctx.Bool(eqnil(t, x, y) && isNilFunc(x))
	}
	return eqTerm(fr, t, x, y)
}

func isNilFunc(x value) bool {
	switch f := x.(type) {
	case *closure:
		return f == nil
	}
	return false
}

func hParam(fr *frame, a []value) value {
	name := concStr(fr, a[0])
	if strings.HasPrefix(name, "NATIVE_") {
		return int(fr.concInt(a[1])) // parameters that only apply to native replay
	}
	if v, ok := fr.i.st.w.eng.Opts.Params[name]; ok {
		return v
	}
	return int(fr.concInt(a[1]))
}
