// Copyright 2013 The Go Authors. All rights reserved.
// Use of this source code is governed by a BSD-style
// license that can be found in the LICENSE file (LICENSE.x-tools).

package interp

// Native models of functions that cannot be interpreted from source
// (assembly, unsafe, reflection, I/O) or that are deliberately abstracted.
// Every model that is hit on a run is listed in the evidence ("stubs").

import (
	"fmt"
	"go/token"
	"go/types"
	"math"
	"regexp"
	"strconv"
	"strings"

	"golang.org/x/tools/go/ssa"

	"verif/engine/sym"
)

type externalFn func(fr *frame, args []value) value

// Key strings are from Function.String().
var externals = make(map[string]externalFn)

// Redirects maps a fully qualified function name to a harness-package function
// that replaces it (a Go stub, executed symbolically like any other code).
type Redirect struct {
	From string
	To   *ssa.Function
}

var protoInitRe = regexp.MustCompile(`\.file_[A-Za-z0-9_]+_proto_(init|rawDescGZIP)$|\.init#[0-9]+$`)

type extEntry struct{ fn externalFn }

func (P *Program) external(fn *ssa.Function) externalFn {
	if e, ok := P.extCache.Load(fn); ok {
		return e.(extEntry).fn
	}
	ext := P.resolveExternal(fn)
	P.extCache.Store(fn, extEntry{ext})
	return ext
}

func (P *Program) resolveExternal(fn *ssa.Function) externalFn {
	if fn.Parent() != nil {
		return nil
	}
	name := P.name(fn)
	if h := hapi[fn.Name()]; h != nil && strings.HasPrefix(fn.Name(), "v") && fn.Signature.Recv() == nil {
		return h
	}
	if r, ok := P.Redirects[name]; ok {
		to := r
		return func(fr *frame, args []value) value {
			fr.i.st.noteStub("redirect " + name + " -> " + to.Name())
			return callSSA(fr.i, fr.caller, 0, to, args, nil)
		}
	}
	if ext := externals[name]; ext != nil {
		return func(fr *frame, args []value) value {
			fr.i.st.noteStub(name)
			return ext(fr, args)
		}
	}
	pkg := fn.Pkg
	if pkg == nil && fn.Origin() != nil {
		pkg = fn.Origin().Pkg
	}
	if pkg != nil && fn.Name() == "String" && fn.Signature.Recv() != nil && strings.HasPrefix(pkg.Pkg.Path(), "github.com/bmeg/grip") {
		// generated protobuf enums: String() goes through reflection tables that are not
		// initialised here; answer from the generated <Enum>_name map instead
		if named, ok := fn.Signature.Recv().Type().(*types.Named); ok {
			if b, ok := named.Underlying().(*types.Basic); ok && b.Kind() == types.Int32 {
				if g, ok := pkg.Members[named.Obj().Name()+"_name"].(*ssa.Global); ok {
					return func(fr *frame, args []value) value {
						fr.i.st.noteStub("enum String() via " + g.Name())
						m, _ := (*fr.i.global(g)).(*smap)
						if s, ok := args[0].(*symv); ok {
							return fmt.Sprintf("<enum %s>", s.String())
						}
						if m != nil {
							if v, ok := m.lookup(fr, args[0]); ok {
								return v
							}
						}
						return fmt.Sprintf("%d", asInt64(args[0]))
					}
				}
			}
		}
	}
	if pkg != nil {
		path := pkg.Pkg.Path()
		if P.NoopPkgs[path] {
			res := fn.Signature.Results()
			return func(fr *frame, args []value) value {
				fr.i.st.noteStub("noop " + path)
				return zeroResults(res)
			}
		}
		if strings.HasPrefix(path, "github.com/bmeg/grip") && protoInitRe.MatchString(name) && isProtoInit(fn) {
			return func(fr *frame, args []value) value { return nil }
		}
		if fn.Synthetic == "package initializer" {
			allow := P.InitAllow != nil && P.InitAllow(path)
			if !allow {
				return func(fr *frame, args []value) value { return nil }
			}
			return func(fr *frame, args []value) value {
				if fr.i.inited[pkg] && fr.caller != nil {
					// guard variable handles repetition, but skip the call overhead
				}
				fr.i.inited[pkg] = true
				if !strings.HasPrefix(path, "github.com/bmeg/grip") {
					fr.i.st.inDepInit++
					defer func() { fr.i.st.inDepInit-- }()
				}
				return runBody(fr, fn, args)
			}
		}
	}
	return nil
}

// isProtoInit recognises generated protobuf registration code: init#N functions
// whose only job is to call file_*_proto_init.
func isProtoInit(fn *ssa.Function) bool {
	if strings.Contains(fn.Name(), "_proto_") {
		return true
	}
	if !strings.HasPrefix(fn.Name(), "init#") {
		return false
	}
	if fn.Blocks == nil {
		return false
	}
	for _, b := range fn.Blocks {
		for _, in := range b.Instrs {
			if c, ok := in.(*ssa.Call); ok {
				if f := c.Call.StaticCallee(); f != nil && strings.Contains(f.Name(), "_proto_init") {
					return true
				}
			}
		}
	}
	return false
}

func zeroResults(res *types.Tuple) value {
	switch res.Len() {
	case 0:
		return nil
	case 1:
		return zero(res.At(0).Type())
	}
	t := make(tuple, res.Len())
	for i := range t {
		t[i] = zero(res.At(i).Type())
	}
	return t
}

// runBody interprets fn's SSA body, bypassing the external lookup.
func runBody(fr0 *frame, fn *ssa.Function, args []value) value {
	i := fr0.i
	fr := &frame{i: i, caller: fr0.caller, fn: fn, g: fr0.g}
	if fn.Blocks == nil {
		i.P.ensureBuilt(fn)
		if fn.Blocks == nil {
			return nil
		}
	}
	i.st.enterFn(fn)
	fr.env = make(map[ssa.Value]value)
	fr.block = fn.Blocks[0]
	fr.locals = make([]value, len(fn.Locals))
	for k, l := range fn.Locals {
		fr.locals[k] = zero(mustDeref(l.Type()))
		fr.env[l] = &fr.locals[k]
	}
	for k, p := range fn.Params {
		fr.env[p] = args[k]
	}
	for fr.block != nil {
		runFrame(fr)
	}
	return fr.result
}

func init() {
	for k, v := range map[string]externalFn{
		"(reflect.Value).Bool":            ext۰reflect۰Value۰Bool,
		"(reflect.Value).CanAddr":         ext۰reflect۰Value۰CanAddr,
		"(reflect.Value).CanInterface":    ext۰reflect۰Value۰CanInterface,
		"(reflect.Value).Elem":            ext۰reflect۰Value۰Elem,
		"(reflect.Value).Field":           ext۰reflect۰Value۰Field,
		"(reflect.Value).Float":           ext۰reflect۰Value۰Float,
		"(reflect.Value).Index":           ext۰reflect۰Value۰Index,
		"(reflect.Value).Int":             ext۰reflect۰Value۰Int,
		"(reflect.Value).Interface":       ext۰reflect۰Value۰Interface,
		"(reflect.Value).IsNil":           ext۰reflect۰Value۰IsNil,
		"(reflect.Value).IsValid":         ext۰reflect۰Value۰IsValid,
		"(reflect.Value).Kind":            ext۰reflect۰Value۰Kind,
		"(reflect.Value).Len":             ext۰reflect۰Value۰Len,
		"(reflect.Value).MapIndex":        ext۰reflect۰Value۰MapIndex,
		"(reflect.Value).MapKeys":         ext۰reflect۰Value۰MapKeys,
		"(reflect.Value).NumField":        ext۰reflect۰Value۰NumField,
		"(reflect.Value).NumMethod":       ext۰reflect۰Value۰NumMethod,
		"(reflect.Value).Pointer":         ext۰reflect۰Value۰Pointer,
		"(reflect.Value).Set":             ext۰reflect۰Value۰Set,
		"(reflect.Value).String":          ext۰reflect۰Value۰String,
		"(reflect.Value).Type":            ext۰reflect۰Value۰Type,
		"(reflect.Value).Uint":            ext۰reflect۰Value۰Uint,
		"(reflect.Value).Slice":           ext۰reflect۰Value۰Slice,
		"(reflect.error).Error":           ext۰reflect۰error۰Error,
		"(reflect.rtype).Bits":            ext۰reflect۰rtype۰Bits,
		"(reflect.rtype).Elem":            ext۰reflect۰rtype۰Elem,
		"(reflect.rtype).Field":           ext۰reflect۰rtype۰Field,
		"(reflect.rtype).In":              ext۰reflect۰rtype۰In,
		"(reflect.rtype).Kind":            ext۰reflect۰rtype۰Kind,
		"(reflect.rtype).NumField":        ext۰reflect۰rtype۰NumField,
		"(reflect.rtype).NumIn":           ext۰reflect۰rtype۰NumIn,
		"(reflect.rtype).NumMethod":       ext۰reflect۰rtype۰NumMethod,
		"(reflect.rtype).NumOut":          ext۰reflect۰rtype۰NumOut,
		"(reflect.rtype).Out":             ext۰reflect۰rtype۰Out,
		"(reflect.rtype).Size":            ext۰reflect۰rtype۰Size,
		"(reflect.rtype).String":          ext۰reflect۰rtype۰String,
		"(reflect.Kind).String":           ext۰reflect۰Kind۰String,
		"reflect.New":                     ext۰reflect۰New,
		"reflect.SliceOf":                 ext۰reflect۰SliceOf,
		"reflect.TypeOf":                  ext۰reflect۰TypeOf,
		"reflect.ValueOf":                 ext۰reflect۰ValueOf,
		"reflect.Zero":                    ext۰reflect۰Zero,
		"reflect.DeepEqual":               ext۰reflect۰DeepEqual,
		"bytes.Equal":                     ext۰bytes۰Equal,
		"bytes.Compare":                   ext۰bytes۰Compare,
		"bytes.IndexByte":                 ext۰bytes۰IndexByte,
		"bytes.Index":                     ext۰bytes۰Index,
		"bytes.Count":                     ext۰bytes۰Count,
		"bytes.HasPrefix":                 ext۰bytes۰HasPrefix,
		"bytes.Join":                      ext۰bytes۰Join,
		"bytes.Split":                     ext۰bytes۰Split,
		"internal/bytealg.MakeNoZero":     ext۰bytealg۰MakeNoZero,
		"fmt.Sprint":                      ext۰fmt۰Sprint,
		"fmt.Sprintf":                     ext۰fmt۰Sprintf,
		"fmt.Errorf":                      ext۰fmt۰Errorf,
		"fmt.Printf":                      extNoop,
		"fmt.Println":                     extNoop,
		"fmt.Print":                       extNoop,
		"fmt.Fprintf":                     extNoop,
		"fmt.Fprintln":                    extNoop,
		"math.Abs":                        ext۰math۰Abs,
		"math.Float64bits":                ext۰math۰Float64bits,
		"math.Float64frombits":            ext۰math۰Float64frombits,
		"math.Floor":                      ext۰math۰Floor,
		"math.Trunc":                      ext۰math۰Trunc,
		"math.Inf":                        ext۰math۰Inf,
		"math.IsNaN":                      ext۰math۰IsNaN,
		"math.IsInf":                      ext۰math۰IsInf,
		"math.NaN":                        ext۰math۰NaN,
		"math.Sqrt":                       ext۰math۰Sqrt,
		"math.Log":                        ext۰math۰Log,
		"math.Exp":                        ext۰math۰Exp,
		"math.Ceil":                       ext۰math۰Ceil,
		"runtime.GC":                      extNoop,
		"runtime.GOMAXPROCS":              func(fr *frame, args []value) value { return 1 },
		"runtime.Gosched":                 ext۰runtime۰Gosched,
		"runtime.NumCPU":                  func(fr *frame, args []value) value { return 4 },
		"runtime.SetFinalizer":            extNoop,
		"runtime.KeepAlive":               extNoop,
		"sort.Float64s":                   ext۰sort۰Float64s,
		"sort.Ints":                       ext۰sort۰Ints,
		"sort.Strings":                    ext۰sort۰Strings,
		"sort.Slice":                      ext۰sort۰Slice,
		"sort.SliceStable":                ext۰sort۰Slice,
		"strconv.Atoi":                    ext۰strconv۰Atoi,
		"strconv.Itoa":                    ext۰strconv۰Itoa,
		"strconv.FormatFloat":             ext۰strconv۰FormatFloat,
		"strconv.ParseFloat":              ext۰strconv۰ParseFloat,
		"strconv.Quote":                   ext۰strconv۰Quote,
		"strings.Count":                   ext۰strings۰Count,
		"strings.Index":                   ext۰strings۰Index,
		"strings.IndexByte":               ext۰strings۰IndexByte,
		"strings.Contains":                ext۰strings۰Contains,
		"strings.HasPrefix":               ext۰strings۰HasPrefix,
		"strings.HasSuffix":               ext۰strings۰HasSuffix,
		"strings.Join":                    ext۰strings۰Join,
		"strings.Split":                   ext۰strings۰Split,
		"strings.ContainsAny":             ext۰strings۰ContainsAny,
		"strings.ToLower":                 ext۰strings۰ToLower,
		"strings.Replace":                 ext۰strings۰Replace,
		"strings.ReplaceAll":              ext۰strings۰ReplaceAll,
		"(*strings.Builder).String":       ext۰strings۰Builder۰String,
		"(*strings.Builder).copyCheck":    extNoop,
		"time.Sleep":                      ext۰time۰Sleep,
		"time.Now":                        ext۰time۰Now,
		"time.Since":                      ext۰time۰Since,
		"unicode/utf8.ValidString":        ext۰utf8۰ValidString,
		"unicode/utf8.RuneCountInString":  ext۰utf8۰RuneCountInString,
		"unicode/utf8.DecodeRuneInString": ext۰unicode۰utf8۰DecodeRuneInString,
		"(*sync.Mutex).Lock":              func(fr *frame, a []value) value { fr.i.st.mutexLock(fr, a[0].(*value), false); return nil },
		"(*sync.Mutex).Unlock":            func(fr *frame, a []value) value { fr.i.st.mutexUnlock(fr, a[0].(*value), false); return nil },
		"(*sync.RWMutex).Lock":            func(fr *frame, a []value) value { fr.i.st.mutexLock(fr, a[0].(*value), false); return nil },
		"(*sync.RWMutex).Unlock":          func(fr *frame, a []value) value { fr.i.st.mutexUnlock(fr, a[0].(*value), false); return nil },
		"(*sync.RWMutex).RLock":           func(fr *frame, a []value) value { fr.i.st.mutexLock(fr, a[0].(*value), true); return nil },
		"(*sync.RWMutex).RUnlock":         func(fr *frame, a []value) value { fr.i.st.mutexUnlock(fr, a[0].(*value), true); return nil },
		"(*sync.WaitGroup).Add":           func(fr *frame, a []value) value { fr.i.st.wgAdd(fr, a[0].(*value), int(fr.concInt(a[1]))); return nil },
		"(*sync.WaitGroup).Done":          func(fr *frame, a []value) value { fr.i.st.wgAdd(fr, a[0].(*value), -1); return nil },
		"(*sync.WaitGroup).Wait":          func(fr *frame, a []value) value { fr.i.st.wgWait(fr, a[0].(*value)); return nil },
		"(*sync.Once).Do":                 ext۰sync۰Once۰Do,
		"sync/atomic.AddInt32":            ext۰atomic۰Add,
		"sync/atomic.AddInt64":            ext۰atomic۰Add,
		"sync/atomic.AddUint32":           ext۰atomic۰Add,
		"sync/atomic.AddUint64":           ext۰atomic۰Add,
		"sync/atomic.LoadInt32":           ext۰atomic۰Load,
		"sync/atomic.LoadInt64":           ext۰atomic۰Load,
		"sync/atomic.LoadUint32":          ext۰atomic۰Load,
		"sync/atomic.LoadUint64":          ext۰atomic۰Load,
		"sync/atomic.LoadPointer":         ext۰atomic۰Load,
		"sync/atomic.StoreInt32":          ext۰atomic۰Store,
		"sync/atomic.StoreInt64":          ext۰atomic۰Store,
		"sync/atomic.StoreUint32":         ext۰atomic۰Store,
		"sync/atomic.StoreUint64":         ext۰atomic۰Store,
		"sync/atomic.CompareAndSwapInt32": ext۰atomic۰CAS,
		"sync/atomic.CompareAndSwapInt64": ext۰atomic۰CAS,
		"sync/atomic.CompareAndSwapUint32": ext۰atomic۰CAS,
		"(*sync/atomic.Int32).Add":        ext۰atomic۰TAdd,
		"(*sync/atomic.Int64).Add":        ext۰atomic۰TAdd,
		"(*sync/atomic.Int32).Load":       ext۰atomic۰TLoad,
		"(*sync/atomic.Int64).Load":       ext۰atomic۰TLoad,
		"(*sync/atomic.Int32).Store":      ext۰atomic۰TStore,
		"(*sync/atomic.Int64).Store":      ext۰atomic۰TStore,
		"(*sync/atomic.Value).Load":       ext۰atomic۰Value۰Load,
		"(*sync/atomic.Value).Store":      ext۰atomic۰Value۰Store,
		"os.Getenv":                       func(fr *frame, args []value) value { return "" },
		"internal/stringslite.Clone":      func(fr *frame, args []value) value { return args[0] },
		"strings.Clone":                   func(fr *frame, args []value) value { return args[0] },
		"(google.golang.org/protobuf/internal/impl.Export).MessageStringOf": func(fr *frame, args []value) value { return "<message>" },
	} {
		externals[k] = v
	}
}

func extNoop(fr *frame, args []value) value {
	res := fr.fn.Signature.Results()
	return zeroResults(res)
}

// ---- bytes / strings ----

func bytesEqTerm(ctx *sym.Ctx, a, b []value) *sym.Term {
	if len(a) != len(b) {
		return ctx.False
	}
	var cs []*sym.Term
	for i := range a {
		cs = append(cs, ctx.Eq(termOf(ctx, a[i]), termOf(ctx, b[i])))
	}
	return ctx.And(cs...)
}

func ext۰bytes۰Equal(fr *frame, args []value) value {
	return valueOf(bytesEqTerm(fr.i.st.ctx, args[0].([]value), args[1].([]value)), types.Bool)
}

func ext۰bytes۰Compare(fr *frame, args []value) value {
	a, b := args[0].([]value), args[1].([]value)
	ctx := fr.i.st.ctx
	if fr.truth(valueOf(bytesEqTerm(ctx, a, b), types.Bool)) {
		return 0
	}
	if fr.truth(valueOf(strLtTerm(ctx, sstr(a), sstr(b)), types.Bool)) {
		return -1
	}
	return 1
}

// indexIn returns the index of the first occurrence of sep in s (forking on symbolic bytes).
func indexIn(fr *frame, s, sep []value) int {
	ctx := fr.i.st.ctx
	n, m := len(s), len(sep)
	if m == 0 {
		return 0
	}
	for i := 0; i+m <= n; i++ {
		if fr.i.st.branch(bytesEqTerm(ctx, s[i:i+m], sep)) {
			return i
		}
	}
	return -1
}

func countIn(fr *frame, s, sep []value) int {
	if len(sep) == 0 {
		return len(s) + 1 // callers in this code base use non-empty separators; rune count assumed ASCII
	}
	n := 0
	for {
		i := indexIn(fr, s, sep)
		if i < 0 {
			return n
		}
		n++
		s = s[i+len(sep):]
	}
}

func splitIn(fr *frame, s, sep []value) [][]value {
	var out [][]value
	if len(sep) == 0 {
		for i := range s {
			out = append(out, s[i:i+1])
		}
		return out
	}
	for {
		i := indexIn(fr, s, sep)
		if i < 0 {
			break
		}
		out = append(out, s[:i:i])
		s = s[i+len(sep):]
	}
	out = append(out, s[:len(s):len(s)])
	return out
}

func ext۰bytes۰IndexByte(fr *frame, args []value) value {
	return indexIn(fr, args[0].([]value), []value{args[1]})
}

func ext۰bytes۰Index(fr *frame, args []value) value {
	return indexIn(fr, args[0].([]value), args[1].([]value))
}

func ext۰bytes۰Count(fr *frame, args []value) value {
	return countIn(fr, args[0].([]value), args[1].([]value))
}

func ext۰bytes۰HasPrefix(fr *frame, args []value) value {
	s, p := args[0].([]value), args[1].([]value)
	if len(s) < len(p) {
		return false
	}
	return valueOf(bytesEqTerm(fr.i.st.ctx, s[:len(p)], p), types.Bool)
}

func ext۰bytes۰Join(fr *frame, args []value) value {
	parts := args[0].([]value)
	sep := args[1].([]value)
	out := []value{}
	for i, p := range parts {
		if i > 0 {
			out = append(out, sep...)
		}
		out = append(out, p.([]value)...)
	}
	return out
}

func ext۰bytes۰Split(fr *frame, args []value) value {
	parts := splitIn(fr, args[0].([]value), args[1].([]value))
	out := make([]value, len(parts))
	for i, p := range parts {
		out[i] = p
	}
	return out
}

func ext۰bytealg۰MakeNoZero(fr *frame, args []value) value {
	n := int(fr.concInt(args[0]))
	out := make([]value, n)
	for i := range out {
		out[i] = uint8(0)
	}
	return out
}

func ext۰strings۰Count(fr *frame, args []value) value {
	return countIn(fr, strBytes(args[0]), strBytes(args[1]))
}

func ext۰strings۰Index(fr *frame, args []value) value {
	if a, ok := args[0].(string); ok {
		if b, ok := args[1].(string); ok {
			return strings.Index(a, b)
		}
	}
	return indexIn(fr, strBytes(args[0]), strBytes(args[1]))
}

func ext۰strings۰IndexByte(fr *frame, args []value) value {
	return indexIn(fr, strBytes(args[0]), []value{args[1]})
}

func ext۰strings۰Contains(fr *frame, args []value) value {
	if a, ok := args[0].(string); ok {
		if b, ok := args[1].(string); ok {
			return strings.Contains(a, b)
		}
	}
	return indexIn(fr, strBytes(args[0]), strBytes(args[1])) >= 0
}

func ext۰strings۰HasPrefix(fr *frame, args []value) value {
	s, p := strBytes(args[0]), strBytes(args[1])
	if len(s) < len(p) {
		return false
	}
	return valueOf(bytesEqTerm(fr.i.st.ctx, s[:len(p)], p), types.Bool)
}

func ext۰strings۰HasSuffix(fr *frame, args []value) value {
	s, p := strBytes(args[0]), strBytes(args[1])
	if len(s) < len(p) {
		return false
	}
	return valueOf(bytesEqTerm(fr.i.st.ctx, s[len(s)-len(p):], p), types.Bool)
}

func ext۰strings۰Join(fr *frame, args []value) value {
	parts := args[0].([]value)
	sep := strBytes(args[1])
	out := []value{}
	for i, p := range parts {
		if i > 0 {
			out = append(out, sep...)
		}
		out = append(out, strBytes(p)...)
	}
	return mkStr(out)
}

func ext۰strings۰Split(fr *frame, args []value) value {
	parts := splitIn(fr, strBytes(args[0]), strBytes(args[1]))
	out := make([]value, len(parts))
	for i, p := range parts {
		out[i] = mkStr(p)
	}
	return out
}

func ext۰strings۰ContainsAny(fr *frame, args []value) value {
	s, chars := strBytes(args[0]), strBytes(args[1])
	ctx := fr.i.st.ctx
	var cs []*sym.Term
	for _, b := range s {
		for _, c := range chars {
			cs = append(cs, ctx.Eq(termOf(ctx, b), termOf(ctx, c)))
		}
	}
	return valueOf(ctx.Or(cs...), types.Bool)
}

func ext۰strings۰ToLower(fr *frame, args []value) value {
	if s, ok := args[0].(string); ok {
		return strings.ToLower(s)
	}
	ctx := fr.i.st.ctx
	bs := strBytes(args[0])
	out := make([]value, len(bs))
	for i, b := range bs {
		t := termOf(ctx, b)
		up := ctx.And(ctx.ULe(ctx.BV('A', 8), t), ctx.ULe(t, ctx.BV('Z', 8)))
		out[i] = valueOf(ctx.Ite(up, ctx.Add(t, ctx.BV(32, 8)), t), types.Uint8)
	}
	fr.i.st.assumps["strings.ToLower on symbolic bytes treats them as ASCII"] = true
	return mkStr(out)
}

func replaceIn(fr *frame, s, old, new []value, n int) []value {
	if len(old) == 0 {
		fr.i.st.unsupported("strings.Replace with empty old")
	}
	out := []value{}
	for n != 0 {
		i := indexIn(fr, s, old)
		if i < 0 {
			break
		}
		out = append(out, s[:i]...)
		out = append(out, new...)
		s = s[i+len(old):]
		n--
	}
	return append(out, s...)
}

func ext۰strings۰Replace(fr *frame, args []value) value {
	return mkStr(replaceIn(fr, strBytes(args[0]), strBytes(args[1]), strBytes(args[2]), int(fr.concInt(args[3]))))
}

func ext۰strings۰ReplaceAll(fr *frame, args []value) value {
	return mkStr(replaceIn(fr, strBytes(args[0]), strBytes(args[1]), strBytes(args[2]), -1))
}

func ext۰strings۰Builder۰String(fr *frame, args []value) value {
	b := (*args[0].(*value)).(structure)
	// fields: addr *Builder, buf []byte
	return mkStr(b[1].([]value))
}

func ext۰utf8۰ValidString(fr *frame, args []value) value {
	if s, ok := args[0].(string); ok {
		return strings.ToValidUTF8(s, "�") == s
	}
	fr.i.st.assumps["symbolic strings are valid UTF-8"] = true
	return true
}

func ext۰utf8۰RuneCountInString(fr *frame, args []value) value {
	if s, ok := args[0].(string); ok {
		return len([]rune(s))
	}
	fr.i.st.assumps["symbolic string bytes are ASCII where runes are counted"] = true
	return strLen(args[0])
}

func ext۰unicode۰utf8۰DecodeRuneInString(fr *frame, args []value) value {
	if s, ok := args[0].(string); ok {
		r, n := decodeRune([]byte(s))
		if len(s) == 0 {
			return tuple{rune(0xFFFD), 0}
		}
		return tuple{r, n}
	}
	it := &stringIter{fr: fr, b: strBytes(args[0])}
	t := it.next()
	if !t[0].(bool) {
		return tuple{rune(0xFFFD), 0}
	}
	return tuple{t[2], it.i}
}

// ---- math ----

func fterm(fr *frame, v value) *sym.Term { return termOf(fr.i.st.ctx, v) }

func ext۰math۰Float64frombits(fr *frame, args []value) value {
	return valueOf(fr.i.st.ctx.FFromBits(fterm(fr, args[0])), types.Float64)
}

func ext۰math۰Float64bits(fr *frame, args []value) value {
	st := fr.i.st
	b, side := st.ctx.FToBits(fterm(fr, args[0]))
	if !side.IsTrue() {
		st.addPC(side)
	}
	return valueOf(b, types.Uint64)
}

func ext۰math۰Abs(fr *frame, args []value) value {
	return valueOf(fr.i.st.ctx.FAbs(fterm(fr, args[0])), types.Float64)
}

func ext۰math۰Floor(fr *frame, args []value) value {
	return valueOf(fr.i.st.ctx.FFloor(fterm(fr, args[0])), types.Float64)
}

func ext۰math۰Trunc(fr *frame, args []value) value {
	return valueOf(fr.i.st.ctx.FTrunc(fterm(fr, args[0])), types.Float64)
}

func ext۰math۰Ceil(fr *frame, args []value) value {
	ctx := fr.i.st.ctx
	return valueOf(ctx.FNeg(ctx.FFloor(ctx.FNeg(fterm(fr, args[0])))), types.Float64)
}

func ext۰math۰NaN(fr *frame, args []value) value { return math.NaN() }

func ext۰math۰IsNaN(fr *frame, args []value) value {
	return valueOf(fr.i.st.ctx.FIsNaN(fterm(fr, args[0])), types.Bool)
}

func ext۰math۰IsInf(fr *frame, args []value) value {
	ctx := fr.i.st.ctx
	f := fterm(fr, args[0])
	sign := fr.concInt(args[1])
	inf := ctx.FIsInf(f)
	zero := ctx.FP(0)
	switch {
	case sign > 0:
		return valueOf(ctx.And(inf, ctx.FLt(zero, f)), types.Bool)
	case sign < 0:
		return valueOf(ctx.And(inf, ctx.FLt(f, zero)), types.Bool)
	}
	return valueOf(inf, types.Bool)
}

func ext۰math۰Inf(fr *frame, args []value) value {
	return math.Inf(int(fr.concInt(args[0])))
}

func concF(fr *frame, v value, what string) float64 {
	f, ok := v.(float64)
	if !ok {
		fr.i.st.unsupported(what + " of a symbolic float")
	}
	return f
}

func ext۰math۰Sqrt(fr *frame, args []value) value { return math.Sqrt(concF(fr, args[0], "math.Sqrt")) }
func ext۰math۰Log(fr *frame, args []value) value  { return math.Log(concF(fr, args[0], "math.Log")) }
func ext۰math۰Exp(fr *frame, args []value) value  { return math.Exp(concF(fr, args[0], "math.Exp")) }

// ---- runtime / time ----

func ext۰runtime۰Gosched(fr *frame, args []value) value {
	fr.i.st.yield(fr.g)
	return nil
}

func ext۰time۰Sleep(fr *frame, args []value) value {
	fr.i.st.yield(fr.g)
	return nil
}

// time.Time is {wall uint64, ext int64, loc *Location}; the clock is a counter
// that strictly increases with every call (documented contract stub).
func ext۰time۰Now(fr *frame, args []value) value {
	st := fr.i.st
	st.clock += 1000
	return structure{uint64(0), int64(st.clock), (*value)(nil)}
}

func ext۰time۰Since(fr *frame, args []value) value {
	st := fr.i.st
	t := args[0].(structure)
	st.clock += 1000
	if since := st.w.eng.Opts.SinceHook; since != nil {
		return since(fr)
	}
	return st.clock - t[1].(int64)
}

// ---- sort ----

func insertionSort(fr *frame, n int, less func(i, j int) bool, swap func(i, j int)) {
	for i := 1; i < n; i++ {
		for j := i; j > 0 && less(j, j-1); j-- {
			swap(j, j-1)
		}
	}
}

func ext۰sort۰Ints(fr *frame, args []value) value {
	x := args[0].([]value)
	insertionSort(fr, len(x), func(i, j int) bool { return fr.truth(binop(fr, token.LSS, nil, x[i], x[j])) }, func(i, j int) { x[i], x[j] = x[j], x[i] })
	return nil
}

func ext۰sort۰Strings(fr *frame, args []value) value  { return ext۰sort۰Ints(fr, args) }
func ext۰sort۰Float64s(fr *frame, args []value) value { return ext۰sort۰Ints(fr, args) }

func ext۰sort۰Slice(fr *frame, args []value) value {
	x := args[0].(iface).v.([]value)
	less := args[1]
	insertionSort(fr, len(x), func(i, j int) bool {
		return fr.truth(call(fr.i, fr, 0, less, []value{i, j}))
	}, func(i, j int) { x[i], x[j] = x[j], x[i] })
	return nil
}

// ---- strconv ----

func (fr *frame) errorValue(msg string) value {
	s := value(structure{msg})
	return iface{t: fr.i.P.errorsErrorString, v: &s}
}

func ext۰strconv۰Atoi(fr *frame, args []value) value {
	s, ok := args[0].(string)
	if !ok {
		fr.i.st.unsupported("strconv.Atoi of a symbolic string")
	}
	i, e := strconv.Atoi(s)
	if e != nil {
		return tuple{i, fr.errorValue(e.Error())}
	}
	return tuple{i, iface{}}
}

func ext۰strconv۰Itoa(fr *frame, args []value) value {
	return strconv.Itoa(int(fr.concInt(args[0])))
}

func ext۰strconv۰Quote(fr *frame, args []value) value {
	if s, ok := args[0].(string); ok {
		return strconv.Quote(s)
	}
	fr.i.st.noteStub("strconv.Quote(symbolic) approximated as \"...\" without escapes")
	return mkStr(append(append([]value{uint8('"')}, strBytes(args[0])...), uint8('"')))
}

func ext۰strconv۰FormatFloat(fr *frame, args []value) value {
	f, ok := args[0].(float64)
	if !ok {
		fr.i.st.unsupported("strconv.FormatFloat of a symbolic float")
	}
	return strconv.FormatFloat(f, args[1].(byte), int(fr.concInt(args[2])), int(fr.concInt(args[3])))
}

// strconv.ParseFloat: concrete strings are parsed natively. A symbolic string is
// modelled by two uninterpreted functions of (length, bytes) shared by
// implementation and oracle: "is numeric text" and "its value".
func ext۰strconv۰ParseFloat(fr *frame, args []value) value {
	if s, ok := args[0].(string); ok {
		f, e := strconv.ParseFloat(s, int(fr.concInt(args[1])))
		if e != nil {
			return tuple{f, fr.errorValue(e.Error())}
		}
		return tuple{f, iface{}}
	}
	st := fr.i.st
	ctx := st.ctx
	bs := strBytes(args[0])
	ts := make([]*sym.Term, len(bs))
	for i, b := range bs {
		ts[i] = termOf(ctx, b)
	}
	okT := ctx.App(fmt.Sprintf("parsefloat_ok_%d", len(bs)), sym.KBool, 0, ts...)
	valBits := ctx.App(fmt.Sprintf("parsefloat_val_%d", len(bs)), sym.KBV, 64, ts...)
	if st.branch(okT) {
		f := ctx.FFromBits(valBits)
		// numeric text never denotes NaN here ("NaN" text is excluded by assumption)
		st.assumeNoted("ParseFloat(symbolic text) is an uninterpreted function; parsed values are not NaN", ctx.Not(ctx.FIsNaN(f)))
		return tuple{valueOf(f, types.Float64), iface{}}
	}
	return tuple{float64(0), fr.errorValue("strconv.ParseFloat: parsing <symbolic>: invalid syntax")}
}

// ---- sync ----

func ext۰sync۰Once۰Do(fr *frame, args []value) value {
	st := fr.i.st
	p := args[0].(*value)
	o := st.onces[p]
	if o == nil {
		o = &onceState{}
		st.onces[p] = o
	}
	if !o.done {
		o.done = true
		call(fr.i, fr, 0, args[1], nil)
		st.raceRelease(fr.g, p)
	}
	st.raceAcquire(fr.g, p)
	return nil
}

func ext۰atomic۰Add(fr *frame, args []value) value {
	p := fr.derefCheck(args[0].(*value))
	*p = binop(fr, token.ADD, nil, *p, args[1])
	fr.i.st.visible(fr.g)
	return *p
}

func ext۰atomic۰Load(fr *frame, args []value) value {
	p := fr.derefCheck(args[0].(*value))
	fr.i.st.visible(fr.g)
	return *p
}

func ext۰atomic۰Store(fr *frame, args []value) value {
	p := fr.derefCheck(args[0].(*value))
	*p = args[1]
	fr.i.st.visible(fr.g)
	return nil
}

func ext۰atomic۰CAS(fr *frame, args []value) value {
	p := fr.derefCheck(args[0].(*value))
	if fr.truth(binop(fr, token.EQL, types.Typ[types.Int64], *p, args[1])) {
		*p = args[2]
		fr.i.st.visible(fr.g)
		return true
	}
	fr.i.st.visible(fr.g)
	return false
}

// typed atomics: struct{ _ noCopy; v int32 } etc. The value field is the last one.
func atomicField(fr *frame, recv value) *value {
	s := (*fr.derefCheck(recv.(*value))).(structure)
	return &s[len(s)-1]
}

func ext۰atomic۰TAdd(fr *frame, args []value) value {
	p := atomicField(fr, args[0])
	*p = binop(fr, token.ADD, nil, *p, args[1])
	return *p
}

func ext۰atomic۰TLoad(fr *frame, args []value) value { return *atomicField(fr, args[0]) }

func ext۰atomic۰TStore(fr *frame, args []value) value {
	*atomicField(fr, args[0]) = args[1]
	return nil
}

// atomic.Value{ v any }
func ext۰atomic۰Value۰Load(fr *frame, args []value) value {
	s := (*fr.derefCheck(args[0].(*value))).(structure)
	return s[0]
}

func ext۰atomic۰Value۰Store(fr *frame, args []value) value {
	s := (*fr.derefCheck(args[0].(*value))).(structure)
	s[0] = args[1]
	return nil
}

// ---- protobuf: faithful blob model ----
//
// proto.Marshal(m) returns an opaque token; proto.Unmarshal(token, m2) makes m2 a
// deep copy of what was marshalled (Unmarshal(Marshal(m)) = m). Native replay
// uses the real encoder.

func deepCopyValue(v value, memo map[*value]*value) value {
	switch x := v.(type) {
	case structure:
		o := make(structure, len(x))
		for i := range x {
			o[i] = deepCopyValue(x[i], memo)
		}
		return o
	case array:
		o := make(array, len(x))
		for i := range x {
			o[i] = deepCopyValue(x[i], memo)
		}
		return o
	case []value:
		if x == nil {
			return x
		}
		o := make([]value, len(x))
		for i := range x {
			o[i] = deepCopyValue(x[i], memo)
		}
		return o
	case *value:
		if x == nil {
			return x
		}
		if n, ok := memo[x]; ok {
			return n
		}
		n := new(value)
		memo[x] = n
		*n = deepCopyValue(*x, memo)
		return n
	case *smap:
		if x == nil {
			return x
		}
		o := &smap{keyType: x.keyType, index: map[string]*mentry{}}
		for _, e := range x.entries {
			if e.deleted {
				continue
			}
			ne := &mentry{key: deepCopyValue(e.key, memo), val: deepCopyValue(e.val, memo)}
			o.entries = append(o.entries, ne)
			o.live++
			if enc, conc := encKey(ne.key); conc {
				o.index[enc] = ne
			} else {
				o.symKeys++
			}
		}
		return o
	case iface:
		return iface{t: x.t, v: deepCopyValue(x.v, memo)}
	}
	return v
}

type protoBlob struct {
	t types.Type
	v value
}

func ext۰proto۰Marshal(fr *frame, args []value) value {
	st := fr.i.st
	m := args[0].(iface)
	if m.t == nil {
		return tuple{[]value(nil), iface{}}
	}
	var blob *protoBlob
	if p, isPtr := m.v.(*value); isPtr {
		if p == nil {
			return tuple{[]value(nil), iface{}}
		}
		blob = &protoBlob{t: m.t, v: deepCopyValue(*p, map[*value]*value{})}
	} else {
		// a non-pointer value (json.Marshal of a map, slice, ...): readable back into a *T
		blob = &protoBlob{t: types.NewPointer(m.t), v: deepCopyValue(m.v, map[*value]*value{})}
	}
	st.blobs = append(st.blobs, blob)
	id := len(st.blobs)
	// 0xfe terminates the token so that its last byte is never JSON white space
	return tuple{[]value{uint8(0xfb), uint8('P'), uint8('B'), uint8(id >> 16), uint8(id >> 8), uint8(id), uint8(0xfe)}, iface{}}
}

// encoding/json.Marshal: the identity token, except that a NaN or infinite float
// anywhere in the value makes the call fail as the real encoder does
// (UnsupportedValueError); a symbolic float is decided by a branch.
func ext۰json۰Marshal(fr *frame, args []value) value {
	if jsonUnsupported(fr, args[0], map[*value]bool{}) {
		return tuple{[]value(nil), fr.errorValue("json: unsupported value: NaN or Inf")}
	}
	return ext۰proto۰Marshal(fr, args)
}

// encoding/json.Unmarshal: the blob token, surrounded by optional JSON white space.
func ext۰json۰Unmarshal(fr *frame, args []value) value {
	b := args[0].([]value)
	isWS := func(v value) bool {
		c, ok := v.(uint8)
		return ok && (c == ' ' || c == '\n' || c == '\t' || c == '\r')
	}
	for len(b) > 0 && isWS(b[len(b)-1]) {
		b = b[:len(b)-1]
	}
	for len(b) > 0 && isWS(b[0]) {
		b = b[1:]
	}
	if len(b) == 0 {
		return fr.errorValue("unexpected end of JSON input")
	}
	return ext۰proto۰Unmarshal(fr, []value{b, args[1]})
}

func jsonUnsupported(fr *frame, v value, seen map[*value]bool) bool {
	switch x := v.(type) {
	case float64:
		return math.IsNaN(x) || math.IsInf(x, 0)
	case float32:
		return math.IsNaN(float64(x)) || math.IsInf(float64(x), 0)
	case *symv:
		if x.K == types.Float64 || x.K == types.Float32 {
			ctx := fr.i.st.ctx
			return fr.i.st.branch(ctx.Or(ctx.FIsNaN(x.T), ctx.FIsInf(x.T)))
		}
	case structure:
		for _, f := range x {
			if jsonUnsupported(fr, f, seen) {
				return true
			}
		}
	case array:
		for _, f := range x {
			if jsonUnsupported(fr, f, seen) {
				return true
			}
		}
	case []value:
		for _, f := range x {
			if jsonUnsupported(fr, f, seen) {
				return true
			}
		}
	case tuple:
		for _, f := range x {
			if jsonUnsupported(fr, f, seen) {
				return true
			}
		}
	case iface:
		return jsonUnsupported(fr, x.v, seen)
	case *value:
		if x == nil || seen[x] {
			return false
		}
		seen[x] = true
		return jsonUnsupported(fr, *x, seen)
	case *smap:
		if x == nil {
			return false
		}
		for _, e := range x.entries {
			if !e.deleted && jsonUnsupported(fr, e.val, seen) {
				return true
			}
		}
	}
	return false
}

func ext۰proto۰Unmarshal(fr *frame, args []value) value {
	st := fr.i.st
	b := args[0].([]value)
	m := args[1].(iface)
	p := fr.derefCheck(m.v.(*value))
	elem := mustDeref(m.t)
	if len(b) == 0 {
		*p = zero(elem)
		return iface{}
	}
	bad := func() value { return fr.errorValue("proto: cannot parse invalid wire-format data") }
	if len(b) != 7 {
		return bad()
	}
	var raw [7]byte
	for i, x := range b {
		c, ok := x.(uint8)
		if !ok {
			st.unsupported("proto.Unmarshal of symbolic bytes")
		}
		raw[i] = c
	}
	if raw[0] != 0xfb || raw[1] != 'P' || raw[2] != 'B' || raw[6] != 0xfe {
		return bad()
	}
	id := int(raw[3])<<16 | int(raw[4])<<8 | int(raw[5])
	if id < 1 || id > len(st.blobs) {
		return bad()
	}
	blob := st.blobs[id-1]
	if !types.Identical(blob.t, m.t) {
		return bad()
	}
	*p = deepCopyValue(blob.v, map[*value]*value{})
	return iface{}
}

// ---- sync.Map, time.Time ----

func (st *pathState) syncMap(p *value) *smap {
	m := st.syncMaps[p]
	if m == nil {
		m = &smap{keyType: types.NewInterfaceType(nil, nil), index: map[string]*mentry{}}
		st.syncMaps[p] = m
	}
	return m
}

func ext۰syncMap۰Store(fr *frame, a []value) value {
	fr.i.st.syncMap(a[0].(*value)).insert(fr, a[1], a[2])
	return nil
}

func ext۰syncMap۰Load(fr *frame, a []value) value {
	v, ok := fr.i.st.syncMap(a[0].(*value)).lookup(fr, a[1])
	if !ok {
		return tuple{iface{}, false}
	}
	return tuple{v, true}
}

func ext۰syncMap۰LoadOrStore(fr *frame, a []value) value {
	m := fr.i.st.syncMap(a[0].(*value))
	if v, ok := m.lookup(fr, a[1]); ok {
		return tuple{v, true}
	}
	m.insert(fr, a[1], a[2])
	return tuple{a[2], false}
}

func ext۰syncMap۰LoadAndDelete(fr *frame, a []value) value {
	m := fr.i.st.syncMap(a[0].(*value))
	v, ok := m.lookup(fr, a[1])
	if !ok {
		return tuple{iface{}, false}
	}
	m.delete(fr, a[1])
	return tuple{v, true}
}

func ext۰syncMap۰Delete(fr *frame, a []value) value {
	fr.i.st.syncMap(a[0].(*value)).delete(fr, a[1])
	return nil
}

func ext۰syncMap۰Range(fr *frame, a []value) value {
	m := fr.i.st.syncMap(a[0].(*value))
	ents := append([]*mentry{}, m.entries...)
	for _, e := range ents {
		if e.deleted {
			continue
		}
		if !fr.truth(call(fr.i, fr, 0, a[1], []value{e.key, e.val})) {
			break
		}
	}
	return nil
}

// sync.Pool: a free list per pool; Get hands back the most recently Put item
// (the schedule-independent worst case for state carried over between uses),
// New() when the list is empty.
func ext۰syncPool۰Get(fr *frame, a []value) value {
	st := fr.i.st
	p := a[0].(*value)
	pools, _ := st.extra["sync.Pool"].(map[*value][]value)
	if items := pools[p]; len(items) > 0 {
		v := items[len(items)-1]
		pools[p] = items[:len(items)-1]
		st.raceAcquire(fr.g, p)
		return v
	}
	s := (*p).(structure)
	switch fn := s[len(s)-1].(type) {
	case *ssa.Function:
		if fn != nil {
			return call(fr.i, fr, 0, fn, nil)
		}
	case *closure:
		if fn != nil {
			return call(fr.i, fr, 0, fn, nil)
		}
	}
	return iface{}
}

func ext۰syncPool۰Put(fr *frame, a []value) value {
	st := fr.i.st
	p := a[0].(*value)
	pools, _ := st.extra["sync.Pool"].(map[*value][]value)
	if pools == nil {
		pools = map[*value][]value{}
		st.extra["sync.Pool"] = pools
	}
	pools[p] = append(pools[p], a[1])
	st.raceRelease(fr.g, p)
	return nil
}

func ext۰time۰Time۰UnixNano(fr *frame, a []value) value {
	return a[0].(structure)[1].(int64)
}

func init() {
	externals["google.golang.org/protobuf/proto.Marshal"] = ext۰proto۰Marshal
	externals["google.golang.org/protobuf/proto.Unmarshal"] = ext۰proto۰Unmarshal
	// encoding/json of whole messages: identity token (what JSON loses is outside the claims that use it)
	externals["encoding/json.Marshal"] = ext۰json۰Marshal
	externals["encoding/json.Unmarshal"] = ext۰json۰Unmarshal
	// randomness and unique ids: environment stubs
	externals["math/rand.Seed"] = extNoop
	externals["math/rand.NewSource"] = extNoop
	externals["math/rand.Intn"] = func(fr *frame, a []value) value { return 0 }
	externals["math/rand.Int"] = func(fr *frame, a []value) value { return 0 }
	externals["(time.Time).UTC"] = func(fr *frame, a []value) value { return a[0] }
	externals["github.com/bmeg/grip/util.UUID"] = func(fr *frame, a []value) value {
		st := fr.i.st
		st.clock++
		return fmt.Sprintf("uuid-%d", st.clock)
	}
	externals["go.mongodb.org/mongo-driver/bson.Marshal"] = func(fr *frame, a []value) value { return tuple{[]value{}, iface{}} }
	externals["(*sync.Pool).Get"] = ext۰syncPool۰Get
	externals["(*sync.Pool).Put"] = ext۰syncPool۰Put
	externals["(*sync.Map).Store"] = ext۰syncMap۰Store
	externals["(*sync.Map).Load"] = ext۰syncMap۰Load
	externals["(*sync.Map).LoadOrStore"] = ext۰syncMap۰LoadOrStore
	externals["(*sync.Map).LoadAndDelete"] = ext۰syncMap۰LoadAndDelete
	externals["(*sync.Map).Delete"] = ext۰syncMap۰Delete
	externals["(*sync.Map).Range"] = ext۰syncMap۰Range
	externals["(time.Time).UnixNano"] = ext۰time۰Time۰UnixNano
}
