package interp

// Symbolic scalar and string values, and the symbolic versions of the
// operators. Concrete operands never reach this file (fast path in ops.go).

import (
	"fmt"
	"go/token"
	"go/types"
	"math"
	"strings"

	"verif/engine/sym"
)

// symv is a scalar whose value is an SMT term. K is the Go basic kind.
type symv struct {
	T *sym.Term
	K types.BasicKind
}

func (s *symv) String() string { return fmt.Sprintf("<sym %s>", s.T.String()) }

// sstr is a string of concrete length whose bytes are uint8 or *symv(Uint8).
// At least one byte is symbolic (otherwise a native string is used).
type sstr []value

func (s sstr) String() string {
	var sb strings.Builder
	sb.WriteString("<sstr ")
	for _, b := range s {
		if c, ok := b.(uint8); ok {
			if c >= 32 && c < 127 {
				sb.WriteByte(c)
			} else {
				fmt.Fprintf(&sb, "\\x%02x", c)
			}
		} else {
			sb.WriteString("?")
		}
	}
	sb.WriteString(">")
	return sb.String()
}

func isSym(v value) bool {
	switch v.(type) {
	case *symv, sstr:
		return true
	}
	return false
}

func kindWidth(k types.BasicKind) int {
	switch k {
	case types.Bool:
		return 0
	case types.Int8, types.Uint8:
		return 8
	case types.Int16, types.Uint16:
		return 16
	case types.Int32, types.Uint32:
		return 32
	case types.Float64:
		return 64
	}
	return 64
}

func kindSigned(k types.BasicKind) bool {
	switch k {
	case types.Int, types.Int8, types.Int16, types.Int32, types.Int64:
		return true
	}
	return false
}

func kindOfValue(v value) types.BasicKind {
	switch v := v.(type) {
	case bool:
		return types.Bool
	case int:
		return types.Int
	case int8:
		return types.Int8
	case int16:
		return types.Int16
	case int32:
		return types.Int32
	case int64:
		return types.Int64
	case uint:
		return types.Uint
	case uint8:
		return types.Uint8
	case uint16:
		return types.Uint16
	case uint32:
		return types.Uint32
	case uint64:
		return types.Uint64
	case uintptr:
		return types.Uintptr
	case float64:
		return types.Float64
	case float32:
		return types.Float32
	case *symv:
		return v.K
	}
	return types.Invalid
}

// termOf lifts a scalar value to a term.
func termOf(ctx *sym.Ctx, v value) *sym.Term {
	switch v := v.(type) {
	case *symv:
		return v.T
	case bool:
		return ctx.Bool(v)
	case int:
		return ctx.BV(uint64(v), 64)
	case int8:
		return ctx.BV(uint64(v), 8)
	case int16:
		return ctx.BV(uint64(v), 16)
	case int32:
		return ctx.BV(uint64(v), 32)
	case int64:
		return ctx.BV(uint64(v), 64)
	case uint:
		return ctx.BV(uint64(v), 64)
	case uint8:
		return ctx.BV(uint64(v), 8)
	case uint16:
		return ctx.BV(uint64(v), 16)
	case uint32:
		return ctx.BV(uint64(v), 32)
	case uint64:
		return ctx.BV(v, 64)
	case uintptr:
		return ctx.BV(uint64(v), 64)
	case float64:
		return ctx.FP(v)
	}
	panic(fmt.Sprintf("termOf: unsupported %T", v))
}

// valueOf lowers a term to a native value when it is constant.
func valueOf(t *sym.Term, k types.BasicKind) value {
	if !t.IsConst() {
		return &symv{T: t, K: k}
	}
	switch k {
	case types.Bool:
		return t.C == 1
	case types.Int:
		return int(t.ConstInt64())
	case types.Int8:
		return int8(t.ConstInt64())
	case types.Int16:
		return int16(t.ConstInt64())
	case types.Int32:
		return int32(t.ConstInt64())
	case types.Int64:
		return t.ConstInt64()
	case types.Uint:
		return uint(t.C)
	case types.Uint8:
		return uint8(t.C)
	case types.Uint16:
		return uint16(t.C)
	case types.Uint32:
		return uint32(t.C)
	case types.Uint64:
		return t.C
	case types.Uintptr:
		return uintptr(t.C)
	case types.Float64:
		return math.Float64frombits(t.C)
	}
	panic(fmt.Sprintf("valueOf: kind %v", k))
}

// ---- strings ----

func isStr(v value) bool {
	switch v.(type) {
	case string, sstr:
		return true
	}
	return false
}

func strLen(v value) int {
	switch v := v.(type) {
	case string:
		return len(v)
	case sstr:
		return len(v)
	}
	panic(fmt.Sprintf("strLen: %T", v))
}

// strBytes returns the bytes of a string value (uint8 or *symv each). Do not mutate.
func strBytes(v value) []value {
	switch v := v.(type) {
	case string:
		out := make([]value, len(v))
		for i := 0; i < len(v); i++ {
			out[i] = v[i]
		}
		return out
	case sstr:
		return []value(v)
	}
	panic(fmt.Sprintf("strBytes: %T", v))
}

// mkStr builds a string value from bytes (copying).
func mkStr(bs []value) value {
	conc := true
	for _, b := range bs {
		if _, ok := b.(uint8); !ok {
			conc = false
			break
		}
	}
	if conc {
		buf := make([]byte, len(bs))
		for i, b := range bs {
			buf[i] = b.(uint8)
		}
		return string(buf)
	}
	out := make(sstr, len(bs))
	copy(out, bs)
	return out
}

func strEqTerm(ctx *sym.Ctx, x, y value) *sym.Term {
	if strLen(x) != strLen(y) {
		return ctx.False
	}
	a, b := strBytes(x), strBytes(y)
	var cs []*sym.Term
	for i := range a {
		ai, aok := a[i].(uint8)
		bi, bok := b[i].(uint8)
		if aok && bok {
			if ai != bi {
				return ctx.False
			}
			continue
		}
		cs = append(cs, ctx.Eq(termOf(ctx, a[i]), termOf(ctx, b[i])))
	}
	return ctx.And(cs...)
}

// strLtTerm is lexicographic x < y.
func strLtTerm(ctx *sym.Ctx, x, y value) *sym.Term {
	a, b := strBytes(x), strBytes(y)
	n := len(a)
	if len(b) < n {
		n = len(b)
	}
	res := ctx.Bool(len(a) < len(b))
	for i := n - 1; i >= 0; i-- {
		ta, tb := termOf(ctx, a[i]), termOf(ctx, b[i])
		res = ctx.Ite(ctx.ULt(ta, tb), ctx.True, ctx.Ite(ctx.Eq(ta, tb), res, ctx.False))
	}
	return res
}

// ---- truth, concretisation, indices ----

// truth returns the branch decision for a boolean value.
func (fr *frame) truth(v value) bool {
	switch v := v.(type) {
	case bool:
		return v
	case *symv:
		return fr.i.st.branch(v.T)
	}
	panic(fmt.Sprintf("truth: %T", v))
}

func boolTerm(ctx *sym.Ctx, v value) *sym.Term {
	switch v := v.(type) {
	case bool:
		return ctx.Bool(v)
	case *symv:
		return v.T
	}
	panic(fmt.Sprintf("boolTerm: %T", v))
}

// concInt returns a concrete int64 for an integer value, enumerating the
// feasible values of a symbolic one (each becomes a fork).
func (fr *frame) concInt(v value) int64 {
	if s, ok := v.(*symv); ok {
		return fr.i.st.concretize(s)
	}
	return asInt64(v)
}

// index checks 0 <= idx < n (raising the target's runtime panic otherwise)
// and returns a concrete index.
func (fr *frame) index(idx value, n int) int {
	if s, ok := idx.(*symv); ok {
		st := fr.i.st
		ctx := st.ctx
		w := kindWidth(s.K)
		var inb *sym.Term
		if n == 0 {
			inb = ctx.False
		} else {
			inb = ctx.ULt(s.T, ctx.BV(uint64(n), w)) // unsigned compare also rejects negatives
			if w < 64 && uint64(n) > (uint64(1)<<uint(w))-1 {
				inb = ctx.True
			}
		}
		if !st.branch(inb) {
			fr.i.rtPanic(fmt.Sprintf("index out of range [symbolic] with length %d", n))
		}
		k := st.choose(n, func(i int) *sym.Term { return ctx.Eq(s.T, ctx.BV(uint64(i), w)) })
		return k
	}
	k := asInt64(idx)
	if k < 0 || k >= int64(n) {
		fr.i.rtPanic(fmt.Sprintf("index out of range [%d] with length %d", k, n))
	}
	return int(k)
}

// ---- operators ----

func symBinop(fr *frame, op token.Token, t types.Type, x, y value) value {
	st := fr.i.st
	ctx := st.ctx
	if isStr(x) || isStr(y) {
		switch op {
		case token.ADD:
			return mkStr(append(append([]value{}, strBytes(x)...), strBytes(y)...))
		case token.EQL:
			return valueOf(strEqTerm(ctx, x, y), types.Bool)
		case token.NEQ:
			return valueOf(ctx.Not(strEqTerm(ctx, x, y)), types.Bool)
		case token.LSS:
			return valueOf(strLtTerm(ctx, x, y), types.Bool)
		case token.GTR:
			return valueOf(strLtTerm(ctx, y, x), types.Bool)
		case token.LEQ:
			return valueOf(ctx.Not(strLtTerm(ctx, y, x)), types.Bool)
		case token.GEQ:
			return valueOf(ctx.Not(strLtTerm(ctx, x, y)), types.Bool)
		}
		panic(fmt.Sprintf("symBinop: string op %s", op))
	}
	kx, ky := kindOfValue(x), kindOfValue(y)
	if kx == types.Invalid || ky == types.Invalid {
		// non-scalar comparison involving symbolic parts
		switch op {
		case token.EQL:
			return valueOf(eqTerm(fr, t, x, y), types.Bool)
		case token.NEQ:
			return valueOf(ctx.Not(eqTerm(fr, t, x, y)), types.Bool)
		}
		panic(fmt.Sprintf("symBinop: %T %s %T", x, op, y))
	}
	a, b := termOf(ctx, x), termOf(ctx, y)
	k := kx
	switch {
	case k == types.Bool:
		switch op {
		case token.EQL:
			return valueOf(ctx.Eq(a, b), types.Bool)
		case token.NEQ:
			return valueOf(ctx.Not(ctx.Eq(a, b)), types.Bool)
		case token.AND:
			return valueOf(ctx.And(a, b), types.Bool)
		case token.OR:
			return valueOf(ctx.Or(a, b), types.Bool)
		}
	case k == types.Float64:
		switch op {
		case token.ADD:
			return valueOf(ctx.FAdd(a, b), k)
		case token.SUB:
			return valueOf(ctx.FSub(a, b), k)
		case token.MUL:
			return valueOf(ctx.FMul(a, b), k)
		case token.QUO:
			return valueOf(ctx.FDiv(a, b), k)
		case token.EQL:
			return valueOf(ctx.FEq(a, b), types.Bool)
		case token.NEQ:
			return valueOf(ctx.Not(ctx.FEq(a, b)), types.Bool)
		case token.LSS:
			return valueOf(ctx.FLt(a, b), types.Bool)
		case token.LEQ:
			return valueOf(ctx.FLe(a, b), types.Bool)
		case token.GTR:
			return valueOf(ctx.FLt(b, a), types.Bool)
		case token.GEQ:
			return valueOf(ctx.FLe(b, a), types.Bool)
		}
	case k == types.Float32:
		st.unsupported("symbolic float32 arithmetic")
	default: // integers
		signed := kindSigned(k)
		w := kindWidth(k)
		switch op {
		case token.SHL, token.SHR:
			// the count may have another width/kind
			cw := kindWidth(ky)
			cnt := b
			if cw < w {
				cnt = ctx.ZExt(b, w)
			} else if cw > w {
				// counts >= w give 0 / sign fill
				big := ctx.Not(ctx.ULt(b, ctx.BV(uint64(w), cw)))
				low := ctx.Extract(b, w-1, 0)
				cnt = ctx.Ite(big, ctx.BV(uint64(w), w), low)
			}
			if kindSigned(ky) {
				if st.branch(ctx.SLt(b, ctx.BV(0, cw))) {
					fr.i.rtPanic("negative shift amount")
				}
			}
			if op == token.SHL {
				return valueOf(ctx.Shl(a, cnt), k)
			}
			if signed {
				return valueOf(ctx.AShr(a, cnt), k)
			}
			return valueOf(ctx.LShr(a, cnt), k)
		}
		if a.W != b.W {
			panic(fmt.Sprintf("symBinop: width mismatch %d %s %d (%T,%T)", a.W, op, b.W, x, y))
		}
		switch op {
		case token.ADD:
			return valueOf(ctx.Add(a, b), k)
		case token.SUB:
			return valueOf(ctx.Sub(a, b), k)
		case token.MUL:
			return valueOf(ctx.Mul(a, b), k)
		case token.QUO, token.REM:
			if st.branch(ctx.Eq(b, ctx.BV(0, w))) {
				fr.i.rtPanic("integer divide by zero")
			}
			if op == token.QUO {
				if signed {
					return valueOf(ctx.SDiv(a, b), k)
				}
				return valueOf(ctx.UDiv(a, b), k)
			}
			if signed {
				return valueOf(ctx.SRem(a, b), k)
			}
			return valueOf(ctx.URem(a, b), k)
		case token.AND:
			return valueOf(ctx.BAnd(a, b), k)
		case token.OR:
			return valueOf(ctx.BOr(a, b), k)
		case token.XOR:
			return valueOf(ctx.BXor(a, b), k)
		case token.AND_NOT:
			return valueOf(ctx.BAnd(a, ctx.BNot(b)), k)
		case token.EQL:
			return valueOf(ctx.Eq(a, b), types.Bool)
		case token.NEQ:
			return valueOf(ctx.Not(ctx.Eq(a, b)), types.Bool)
		case token.LSS:
			if signed {
				return valueOf(ctx.SLt(a, b), types.Bool)
			}
			return valueOf(ctx.ULt(a, b), types.Bool)
		case token.LEQ:
			if signed {
				return valueOf(ctx.SLe(a, b), types.Bool)
			}
			return valueOf(ctx.ULe(a, b), types.Bool)
		case token.GTR:
			if signed {
				return valueOf(ctx.SLt(b, a), types.Bool)
			}
			return valueOf(ctx.ULt(b, a), types.Bool)
		case token.GEQ:
			if signed {
				return valueOf(ctx.SLe(b, a), types.Bool)
			}
			return valueOf(ctx.ULe(b, a), types.Bool)
		}
	}
	panic(fmt.Sprintf("symBinop: invalid op %T %s %T", x, op, y))
}

func symUnop(fr *frame, op token.Token, x *symv) value {
	ctx := fr.i.st.ctx
	switch op {
	case token.SUB:
		if x.K == types.Float64 {
			return valueOf(ctx.FNeg(x.T), x.K)
		}
		return valueOf(ctx.Neg(x.T), x.K)
	case token.NOT:
		return valueOf(ctx.Not(x.T), types.Bool)
	case token.XOR:
		return valueOf(ctx.BNot(x.T), x.K)
	}
	panic(fmt.Sprintf("symUnop: %s", op))
}

// symConvScalar converts symbolic scalar x to basic kind dst.
func symConvScalar(fr *frame, x *symv, dst types.BasicKind) value {
	ctx := fr.i.st.ctx
	src := x.K
	if src == types.Bool || dst == types.Bool {
		if src == dst {
			return x
		}
		panic("symConv: bool conversion")
	}
	if dst == types.Float32 || src == types.Float32 {
		fr.i.st.unsupported("symbolic float32 conversion")
	}
	switch {
	case src == types.Float64 && dst == types.Float64:
		return x
	case src == types.Float64:
		w := kindWidth(dst)
		if kindSigned(dst) {
			return valueOf(ctx.FToSInt(x.T, w), dst)
		}
		return valueOf(ctx.FToUInt(x.T, w), dst)
	case dst == types.Float64:
		if kindSigned(src) {
			return valueOf(ctx.FFromSInt(x.T), dst)
		}
		return valueOf(ctx.FFromUInt(x.T), dst)
	}
	w := kindWidth(dst)
	if kindSigned(src) {
		return valueOf(ctx.SExt(x.T, w), dst)
	}
	return valueOf(ctx.ZExt(x.T, w), dst)
}

// eqTerm returns the term for x == y at static type t (Go's == relation).
func eqTerm(fr *frame, t types.Type, x, y value) *sym.Term {
	ctx := fr.i.st.ctx
	switch x := x.(type) {
	case *symv:
		if x.K == types.Float64 {
			return ctx.FEq(x.T, termOf(ctx, y))
		}
		return ctx.Eq(x.T, termOf(ctx, y))
	case string, sstr:
		return strEqTerm(ctx, x, y)
	case structure:
		ys := y.(structure)
		tStruct := t.Underlying().(*types.Struct)
		var cs []*sym.Term
		for i, n := 0, tStruct.NumFields(); i < n; i++ {
			f := tStruct.Field(i)
			if f.Name() == "_" {
				continue
			}
			cs = append(cs, eqTerm(fr, f.Type(), x[i], ys[i]))
		}
		return ctx.And(cs...)
	case array:
		ya := y.(array)
		tElt := t.Underlying().(*types.Array).Elem()
		var cs []*sym.Term
		for i := range x {
			cs = append(cs, eqTerm(fr, tElt, x[i], ya[i]))
		}
		return ctx.And(cs...)
	case iface:
		yi := y.(iface)
		if !sameType(x.t, yi.t) {
			return ctx.False
		}
		if x.t == nil {
			return ctx.True
		}
		if !types.Comparable(x.t) {
			panic(targetPanic{v: iface{t: fr.i.runtimeErrorString, v: "comparing uncomparable type " + x.t.String()}, rt: true})
		}
		return eqTerm(fr, x.t, x.v, yi.v)
	}
	if s, ok := y.(*symv); ok {
		if s.K == types.Float64 {
			return ctx.FEq(termOf(ctx, x), s.T)
		}
		return ctx.Eq(termOf(ctx, x), s.T)
	}
	return ctx.Bool(eqnil(t, x, y))
}

// symConv handles conversions whose operand has symbolic parts.
func symConv(fr *frame, t_dst, t_src types.Type, x value) (value, bool) {
	switch x := x.(type) {
	case *symv:
		if b, ok := t_dst.Underlying().(*types.Basic); ok {
			if b.Kind() == types.String {
				// string(rune): assume an ASCII code point (recorded as an assumption of the run)
				st := fr.i.st
				ctx := st.ctx
				w := kindWidth(x.K)
				st.assumeNoted("a symbolic integer converted to a string is an ASCII code point", ctx.ULt(x.T, ctx.BV(0x80, w)))
				return mkStr([]value{valueOf(ctx.Extract(x.T, 7, 0), types.Uint8)}), true
			}
			return symConvScalar(fr, x, b.Kind()), true
		}
	case sstr:
		switch d := t_dst.Underlying().(type) {
		case *types.Basic:
			if d.Kind() == types.String {
				return x, true
			}
		case *types.Slice:
			if eb, ok := d.Elem().Underlying().(*types.Basic); ok && eb.Kind() == types.Byte {
				out := make([]value, len(x))
				copy(out, x)
				return out, true
			}
			fr.i.st.unsupported("[]rune(symbolic string)")
		}
	case []value:
		if d, ok := t_dst.Underlying().(*types.Basic); ok && d.Kind() == types.String {
			anySym := false
			for _, e := range x {
				if _, ok := e.(*symv); ok {
					anySym = true
				}
			}
			if anySym {
				if eb, ok := t_src.Underlying().(*types.Slice).Elem().Underlying().(*types.Basic); ok && eb.Kind() == types.Byte {
					return mkStr(x), true
				}
				fr.i.st.unsupported("string([]rune) with symbolic runes")
			}
		}
	}
	return nil, false
}

// stringIter iterates over the runes of a string. Symbolic bytes are assumed
// to be ASCII (recorded as an assumption of the run).
type stringIter struct {
	fr *frame
	b  []value
	i  int
}

func (it *stringIter) next() tuple {
	okv := make(tuple, 3)
	if it.i >= len(it.b) {
		okv[0] = false
		return okv
	}
	okv[0] = true
	okv[1] = it.i
	switch c := it.b[it.i].(type) {
	case uint8:
		if c < 0x80 {
			okv[2] = rune(c)
			it.i++
			return okv
		}
		// concrete multi-byte sequence: decode natively as far as bytes are concrete
		buf := []byte{}
		for j := it.i; j < len(it.b) && j < it.i+4; j++ {
			if cb, ok := it.b[j].(uint8); ok {
				buf = append(buf, cb)
			} else {
				break
			}
		}
		r, n := decodeRune(buf)
		okv[2] = r
		it.i += n
		return okv
	case *symv:
		st := it.fr.i.st
		ctx := st.ctx
		st.assumeNoted("symbolic string bytes are ASCII where a string is iterated as runes", ctx.ULt(c.T, ctx.BV(0x80, 8)))
		okv[2] = valueOf(ctx.ZExt(c.T, 32), types.Int32)
		it.i++
		return okv
	}
	panic("stringIter: bad byte")
}

func decodeRune(b []byte) (rune, int) {
	r := []rune(string(b))
	if len(r) == 0 {
		return 0xFFFD, 1
	}
	n := len(string(r[0]))
	if r[0] == 0xFFFD {
		n = 1
	}
	return r[0], n
}
