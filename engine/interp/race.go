package interp

// Happens-before data-race detection (vector clocks) over the target's memory
// accesses: loads and stores through pointers (which covers struct fields, slice
// and array elements and globals) and map reads/writes. Synchronisation edges:
// go statement, channel send/close -> receive (per channel, over-approximated:
// every earlier send on a channel is ordered before a later receive on it),
// mutex unlock -> lock, WaitGroup Done -> Wait, Once, atomics and sync.Map (as
// acquire+release). Over-approximating the order can only hide races, never
// invent one; every reported race is additionally confirmed natively under the
// Go race detector before it is believed.

import (
	"fmt"
	"go/token"
	"go/types"
	"path/filepath"
	"sort"
	"strings"

	"golang.org/x/tools/go/ssa"
)

type vclock []int32

func (v vclock) get(i int) int32 {
	if i < len(v) {
		return v[i]
	}
	return 0
}

func (v *vclock) join(o vclock) {
	for len(*v) < len(o) {
		*v = append(*v, 0)
	}
	for i, c := range o {
		if c > (*v)[i] {
			(*v)[i] = c
		}
	}
}

func (v *vclock) tick(i int) {
	for len(*v) <= i {
		*v = append(*v, 0)
	}
	(*v)[i]++
}

func (v vclock) copy() vclock { return append(vclock(nil), v...) }

type raceAccess struct {
	g     int
	clock int32
	fn    *ssa.Function
	pos   token.Pos
}

type shadow struct {
	w     raceAccess
	hasW  bool
	reads []raceAccess // at most one per goroutine
}

type raceState struct {
	on      bool
	vcs     map[int]*vclock         // per goroutine
	objs    map[interface{}]*vclock // per sync object (channel, mutex, ...)
	cells   map[interface{}]*shadow // per memory cell (*value) or map (*smap)
	seen    map[string]bool
	spawned bool
}

func (st *pathState) raceInit() {
	st.race = &raceState{on: true, vcs: map[int]*vclock{}, objs: map[interface{}]*vclock{}, cells: map[interface{}]*shadow{}, seen: map[string]bool{}}
}

func (r *raceState) vc(g int) *vclock {
	v := r.vcs[g]
	if v == nil {
		nv := vclock{}
		nv.tick(g)
		v = &nv
		r.vcs[g] = v
	}
	return v
}

// raceFork: the child starts with everything the parent has done so far.
func (st *pathState) raceFork(parent, child int) {
	r := st.race
	if r == nil {
		return
	}
	r.spawned = true
	pv := r.vc(parent)
	cv := pv.copy()
	cv.tick(child)
	r.vcs[child] = &cv
	pv.tick(parent)
}

// raceRelease: what g has done so far becomes visible to whoever acquires obj later.
func (st *pathState) raceRelease(g *gor, obj interface{}) {
	r := st.race
	if r == nil || g == nil || obj == nil {
		return
	}
	ov := r.objs[obj]
	if ov == nil {
		ov = &vclock{}
		r.objs[obj] = ov
	}
	gv := r.vc(g.id)
	ov.join(*gv)
	gv.tick(g.id)
}

func (st *pathState) raceAcquire(g *gor, obj interface{}) {
	r := st.race
	if r == nil || g == nil || obj == nil {
		return
	}
	if ov := r.objs[obj]; ov != nil {
		r.vc(g.id).join(*ov)
	}
}

func (st *pathState) raceSite(a raceAccess) string {
	if a.fn == nil {
		return "?"
	}
	p := a.fn.Prog.Fset.Position(a.pos)
	return fmt.Sprintf("%s (%s:%d)", st.w.eng.P.name(a.fn), shortFile(p.Filename), p.Line)
}

func (st *pathState) raceReport(kind string, a, b raceAccess) {
	sa, sb := st.raceSite(a), st.raceSite(b)
	ss := []string{sa, sb}
	sort.Strings(ss)
	key := ss[0] + " | " + ss[1]
	if st.race.seen[key] {
		return
	}
	st.race.seen[key] = true
	st.events = append(st.events, Event{Kind: EvRace, ID: key, Msg: fmt.Sprintf("data race (%s): %s by goroutine %d and %s by goroutine %d are not ordered by any synchronisation", kind, sa, a.g, sb, b.g)})
}

// raceAccessCell records a read or write of a memory cell by the current goroutine.
func (st *pathState) raceAccessCell(fr *frame, cell interface{}, write bool, pos token.Pos) {
	r := st.race
	if r == nil || !r.spawned || fr == nil || fr.g == nil || cell == nil {
		return
	}
	if fr.fn != nil && st.w.eng.P.isHarness(fr.fn) {
		return // the harness's own bookkeeping is not the subject
	}
	g := fr.g.id
	v := *r.vc(g)
	sh := r.cells[cell]
	if sh == nil {
		sh = &shadow{}
		r.cells[cell] = sh
	}
	cur := raceAccess{g: g, clock: v.get(g), fn: fr.fn, pos: pos}
	if sh.hasW && sh.w.g != g && sh.w.clock > v.get(sh.w.g) {
		if write {
			st.raceReport("write/write", sh.w, cur)
		} else {
			st.raceReport("write/read", sh.w, cur)
		}
	}
	if write {
		for _, rd := range sh.reads {
			if rd.g != g && rd.clock > v.get(rd.g) {
				st.raceReport("read/write", rd, cur)
			}
		}
		sh.w, sh.hasW = cur, true
		sh.reads = sh.reads[:0]
		return
	}
	for i := range sh.reads {
		if sh.reads[i].g == g {
			sh.reads[i] = cur
			return
		}
	}
	sh.reads = append(sh.reads, cur)
}

// raceCells records an access to a value of type T stored at addr, cell by cell
// (a struct or array occupies one cell per field / element, as load and store see it).
func (st *pathState) raceCells(fr *frame, T types.Type, addr *value, write bool, pos token.Pos) {
	r := st.race
	if r == nil || !r.spawned || addr == nil {
		return
	}
	switch T := T.Underlying().(type) {
	case *types.Struct:
		if v, ok := (*addr).(structure); ok {
			for i := range v {
				if i < T.NumFields() {
					st.raceCells(fr, T.Field(i).Type(), &v[i], write, pos)
				}
			}
			return
		}
	case *types.Array:
		if v, ok := (*addr).(array); ok {
			for i := range v {
				st.raceCells(fr, T.Elem(), &v[i], write, pos)
			}
			return
		}
	}
	st.raceAccessCell(fr, addr, write, pos)
}

func (P *Program) isHarness(fn *ssa.Function) bool {
	if v, ok := P.harnessFn.Load(fn); ok {
		return v.(bool)
	}
	f := fn
	for f.Parent() != nil {
		f = f.Parent()
	}
	name := filepath.Base(fn.Prog.Fset.Position(f.Pos()).Filename)
	// harness functions named ...Tracked stand for client/back-end code whose accesses count
	h := strings.HasPrefix(name, "zz_verif_") && !strings.HasSuffix(f.Name(), "Tracked")
	P.harnessFn.Store(fn, h)
	return h
}
