package interp

// Exploration driver: a pool of workers re-executes the harness from the start
// for every decision prefix on the work list (DFS order), each worker owning one
// term context and one incremental solver process.

import (
	"fmt"
	"go/token"
	"os"
	"runtime/debug"
	"sort"
	"strings"
	"sync"
	"sync/atomic"
	"time"

	"golang.org/x/tools/go/ssa"

	"verif/engine/sym"
)

type Options struct {
	Workers      int
	Solver       string
	TimeoutMs    int
	Unwind       int
	StepBudget   int64
	MaxPaths     int64
	Deadline     time.Time
	Explore      bool // exploring scheduler
	Livelock    bool // report UNWIND paths as non-termination candidates
	SchedBudget  int
	ChanScale    int
	ChanScaleMin int
	MakeCap      int // cap on make([]T, n) sizes (0 = none)
	ConstRewrite []ConstRewrite // integer constants of named functions executed with another value (stated in the evidence)
	Race         bool // happens-before data-race detection
	Trace        bool
	KnownPanicSites []KnownSite // panic/deadlock sites listed as known findings
	Prefix       []int64 // run exactly one path (replay in-engine)
	SinceHook    func(fr *frame) value
	Params       map[string]int
	ActiveFindings map[string]bool
	PassWitness  int      // completed passing paths whose model is handed back for native validation of the translator
	CrossSolvers []string // second solvers for the unsat cross-check (none = off)
	CrossEvery   int      // every n-th unsat verdict is cross-checked
	CrossMax     int      // at most this many per harness
}

// ConstRewrite: inside functions whose full name contains Func, the integer
// constant From is executed as To (a block size scaled down, like chan_scale).
type ConstRewrite struct {
	Func string `json:"func"`
	From int64  `json:"from"`
	To   int64  `json:"to"`
}

type KnownSite struct {
	ID      string
	Contains string // substring of "msg @ site"
}

type Engine struct {
	P       *Program
	Pkg     *ssa.Package
	Harness *ssa.Function
	Opts    Options

	mu       sync.Mutex
	work     [][]int64
	inflight int
	cond     *sync.Cond
	Report   *Report
	stop     atomic.Bool
	cross    *crossChecker
	okSeen   atomic.Int64
	okTaken  atomic.Int64
}

type Worker struct {
	id     int
	eng    *Engine
	ctx    *sym.Ctx
	solver *sym.Solver
	paths  int
}

type AssertStat struct {
	ID        string
	Holds     int64
	Concrete  int64
	Violated  int64
	Unknown   int64
}

type Violation struct {
	Kind   string // "assert","panic","deadlock"
	ID     string
	Msg    string
	Model  map[string]uint64
	Inputs []*InputRec
	Trace  []int64
	Panic  *PanicInfo
}

type Report struct {
	Harness     string
	Paths       int64
	Outcomes    map[string]int64
	Steps       int64
	Asserts     map[string]*AssertStat
	Reached     map[string]int64
	Violations  []*Violation
	Known       map[string]*Violation // finding id -> first witness
	Inconclusive []string
	Assumptions map[string]bool
	Uninit      map[string]bool
	Stubs       map[string]bool
	Funcs       map[string]bool
	KahnBroken  map[string]bool
	Queries     int
	Sat, Unsat, Unknown int
	SolverTime  time.Duration
	Wall        time.Duration
	Exhaustive  bool
	Samples     []string
	MaxTrace    int
	Truncated   bool
	PassWitnesses []*Violation // models of passing paths (Kind "pass"; Msg = assertion ids that held)
	Cross       []*CrossStat
	CrossSeen   int64 // unsat verdicts of the primary solver
}

func NewEngine(P *Program, pkg *ssa.Package, harness *ssa.Function, opts Options) *Engine {
	e := &Engine{P: P, Pkg: pkg, Harness: harness, Opts: opts}
	e.cond = sync.NewCond(&e.mu)
	e.Report = &Report{Harness: harness.Name(), Outcomes: map[string]int64{}, Asserts: map[string]*AssertStat{}, Reached: map[string]int64{},
		Known: map[string]*Violation{}, Assumptions: map[string]bool{}, Uninit: map[string]bool{}, Stubs: map[string]bool{}, Funcs: map[string]bool{}, KahnBroken: map[string]bool{}}
	return e
}

func (e *Engine) Run() *Report {
	t0 := time.Now()
	if e.Opts.Prefix != nil {
		e.work = [][]int64{e.Opts.Prefix}
	} else {
		e.work = [][]int64{{}}
	}
	n := e.Opts.Workers
	if n <= 0 {
		n = 1
	}
	if len(e.Opts.CrossSolvers) > 0 && e.Opts.Prefix == nil {
		every, max := e.Opts.CrossEvery, e.Opts.CrossMax
		if every <= 0 {
			every = 50
		}
		if max <= 0 {
			max = 60
		}
		e.cross = newCrossChecker(e.Opts.CrossSolvers, every, max, 20000)
	}
	var wg sync.WaitGroup
	for k := 0; k < n; k++ {
		w := &Worker{id: k, eng: e}
		wg.Add(1)
		go func() {
			defer wg.Done()
			w.loop()
		}()
	}
	wg.Wait()
	if e.cross != nil {
		stats, bad := e.cross.finish()
		e.Report.Cross = stats
		e.Report.CrossSeen = e.cross.seen.Load()
		for _, b := range bad {
			fmt.Fprintln(os.Stderr, "SOLVER DISAGREEMENT:", b)
			e.Report.Inconclusive = append(e.Report.Inconclusive, "second solver disagrees with an unsat verdict: "+strings.SplitN(b, "\n", 2)[0])
		}
	}
	e.Report.Wall = time.Since(t0)
	r := e.Report
	r.Exhaustive = !r.Truncated && len(r.Inconclusive) == 0
	return r
}

func (e *Engine) next() ([]int64, bool) {
	e.mu.Lock()
	defer e.mu.Unlock()
	for {
		if e.stop.Load() {
			return nil, false
		}
		if n := len(e.work); n > 0 {
			p := e.work[n-1]
			e.work = e.work[:n-1]
			e.inflight++
			return p, true
		}
		if e.inflight == 0 {
			e.cond.Broadcast()
			return nil, false
		}
		e.cond.Wait()
	}
}

func (e *Engine) done(forks [][]int64) {
	e.mu.Lock()
	// push in reverse so that the earliest fork is explored first (DFS)
	for i := len(forks) - 1; i >= 0; i-- {
		e.work = append(e.work, forks[i])
	}
	e.inflight--
	e.cond.Broadcast()
	e.mu.Unlock()
}

func (w *Worker) hookCross() {
	if c := w.eng.cross; c != nil && w.solver != nil {
		w.solver.XSample = c.sample
		w.solver.XSink = c.sink
	}
}

func (w *Worker) loop() {
	e := w.eng
	w.ctx = sym.NewCtx()
	s, err := sym.NewSolver(e.Opts.Solver, w.ctx, e.Opts.TimeoutMs)
	if err != nil {
		fmt.Fprintln(os.Stderr, "solver start failed:", err)
		e.stop.Store(true)
		return
	}
	w.solver = s
	w.hookCross()
	if lf := os.Getenv("VCHECK_SMTLOG"); lf != "" && w.id == 0 {
		f, _ := os.Create(lf)
		s.Log = f
	}
	defer func() {
		e.mu.Lock()
		e.Report.Queries += w.solver.Queries
		e.Report.Sat += w.solver.NSat
		e.Report.Unsat += w.solver.NUnsat
		e.Report.Unknown += w.solver.NUnknown
		e.Report.SolverTime += w.solver.Time
		e.mu.Unlock()
		w.solver.Close()
	}()
	for {
		prefix, ok := e.next()
		if !ok {
			return
		}
		if w.ctx.NumTerms() > 400000 {
			// fresh context and solver: terms are per-path anyway
			w.solver.Close()
			e.mu.Lock()
			e.Report.Queries += w.solver.Queries
			e.Report.Sat += w.solver.NSat
			e.Report.Unsat += w.solver.NUnsat
			e.Report.Unknown += w.solver.NUnknown
			e.Report.SolverTime += w.solver.Time
			e.mu.Unlock()
			w.ctx = sym.NewCtx()
			w.solver, _ = sym.NewSolver(e.Opts.Solver, w.ctx, e.Opts.TimeoutMs)
			w.hookCross()
		}
		st := w.runPath(prefix)
		w.collect(st)
		forks := st.forks
		if e.Opts.Prefix != nil {
			forks = nil
		}
		e.done(forks)
	}
}

func (w *Worker) runPath(prefix []int64) *pathState {
	e := w.eng
	st := &pathState{
		w: w, ctx: w.ctx, prefix: prefix,
		pcSet: map[int]bool{}, inputSeen: map[string]int{}, assumps: map[string]bool{}, stubs: map[string]bool{},
		funcs: map[*ssa.Function]struct{}{},
		unwind: e.Opts.Unwind, stepBudget: e.Opts.StepBudget, tracing: e.Opts.Trace,
		mutexes: map[*value]*mutexState{}, wgs: map[*value]*wgState{}, onces: map[*value]*onceState{},
		explore: e.Opts.Explore, schedBudget: e.Opts.SchedBudget, extra: map[string]interface{}{}, syncMaps: map[*value]*smap{},
	}
	if e.Opts.Race {
		st.raceInit()
	}
	i := newInterpreter(e.P, st)
	g := &gor{id: 0, name: "main", wake: make(chan struct{}, 1)}
	st.gors = []*gor{g}
	st.main = g
	st.cur = g
	st.startGor(g, func() {
		i.runInit(e.Pkg)
		call(i, nil, token.NoPos, e.Harness, nil)
	})
	g.wake <- struct{}{}
	st.wg.Wait()
	st.extra["steps"] = i.steps
	return st
}

// collect merges the result of one path into the report.
func (w *Worker) collect(st *pathState) {
	e := w.eng
	r := e.Report
	// outcome-level checks need solver access: do them before taking the lock
	var outViol *Violation
	var outKnown string
	if st.outcome == OutPanic || st.outcome == OutDeadlock {
		kind := "panic"
		desc := ""
		if st.outcome == OutPanic {
			desc = st.panicInfo.Msg + " @ " + st.panicInfo.Site
			for _, s := range st.panicInfo.Stack {
				desc += " < " + s
			}
		} else {
			kind = "deadlock"
			desc = st.msg
		}
		for _, ks := range e.Opts.KnownPanicSites {
			if ks.Contains != "" && contains(desc, ks.Contains) {
				outKnown = ks.ID
				break
			}
		}
		// model for the path
		vars := st.inputVars()
		ctx := st.ctx
		if outKnown == "" {
			// outside every declared region?
			res, m := w.solver.CheckModel(st.pc, vars, ctx.Not(st.regionTerm("")))
			if res == sym.Sat {
				outViol = &Violation{Kind: kind, ID: kind, Msg: desc, Model: m, Inputs: st.inputs, Trace: st.trace, Panic: st.panicInfo}
			} else if res == sym.Unknown {
				st.inexact = true
			}
			for _, rg := range st.regions {
				if len(rg.scope) > 0 {
					continue
				}
				res2, m2 := w.solver.CheckModel(st.pc, vars, rg.t)
				if res2 == sym.Sat {
					st.events = append(st.events, Event{Kind: EvKnownObserved, ID: rg.id, Model: m2, Msg: kind + ": " + desc})
				}
			}
		} else {
			_, m := w.solver.CheckModel(st.pc, vars)
			st.events = append(st.events, Event{Kind: EvKnownObserved, ID: outKnown, Model: m, Msg: kind + ": " + desc})
		}
	}
	var raceViols []*Violation
	for idx := range st.events {
		ev := &st.events[idx]
		if ev.Kind != EvRace {
			continue
		}
		known := ""
		for _, ks := range e.Opts.KnownPanicSites {
			if ks.Contains != "" && contains(ev.Msg, ks.Contains) {
				known = ks.ID
				break
			}
		}
		_, m := w.solver.CheckModel(st.pc, st.inputVars())
		if known != "" {
			ev.Kind, ev.ID, ev.Model = EvKnownObserved, known, m
			continue
		}
		raceViols = append(raceViols, &Violation{Kind: "race", ID: ev.ID, Msg: ev.Msg, Model: m, Inputs: st.inputs, Trace: st.trace})
	}
	if st.outcome == OutUnwind && e.Opts.Livelock {
		// a loop bound that every run of the unchanged code stays far below was
		// exceeded: candidate non-termination, to be confirmed natively
		if res, m := w.solver.CheckModel(st.pc, st.inputVars()); res == sym.Sat {
			outViol = &Violation{Kind: "livelock", ID: "livelock", Msg: st.msg, Model: m, Inputs: st.inputs, Trace: st.trace}
		}
	}
	var passW *Violation
	if st.outcome == OutOK && !st.inexact && e.Opts.PassWitness > 0 && e.Opts.Prefix == nil {
		clean := true
		var held []string
		seenID := map[string]bool{}
		for _, ev := range st.events {
			switch ev.Kind {
			case EvAssertViolated, EvAssertUnknown, EvKnownObserved, EvRace:
				clean = false
			case EvAssertHolds:
				if !seenID[ev.ID] {
					seenID[ev.ID] = true
					held = append(held, ev.ID)
				}
			}
		}
		if clean {
			n := e.okSeen.Add(1)
			pow := n == 1
			for p := int64(7); p <= n && !pow; p *= 7 {
				pow = p == n
			}
			if pow && e.okTaken.Load() < 12 {
				if res, m := w.solver.CheckModel(st.pc, st.inputVars()); res == sym.Sat {
					e.okTaken.Add(1)
					sort.Strings(held)
					passW = &Violation{Kind: "pass", ID: "pass", Msg: strings.Join(held, ","), Model: m, Inputs: st.inputs, Trace: st.trace}
				}
			}
		}
	}
	e.mu.Lock()
	defer e.mu.Unlock()
	if passW != nil {
		r.PassWitnesses = append(r.PassWitnesses, passW)
	}
	r.Paths++
	r.Outcomes[st.outcome.String()]++
	if steps, ok := st.extra["steps"].(int64); ok {
		r.Steps += steps
	}
	if len(st.trace) > r.MaxTrace {
		r.MaxTrace = len(st.trace)
	}
	for k := range st.assumps {
		r.Assumptions[k] = true
	}
	for k := range st.uninit {
		r.Uninit[k] = true
	}
	for k := range st.stubs {
		r.Stubs[k] = true
	}
	for _, k := range st.kahnBroken {
		r.KahnBroken[k] = true
	}
	for fn := range st.funcs {
		r.Funcs[e.P.name(fn)] = true
	}
	switch st.outcome {
	case OutUnwind, OutBudget, OutUnsupported, OutEngineError:
		if len(r.Inconclusive) < 50 {
			r.Inconclusive = append(r.Inconclusive, st.outcome.String()+": "+st.msg)
		} else {
			r.Truncated = true
		}
	}
	if st.inexact {
		if len(r.Inconclusive) < 50 {
			r.Inconclusive = append(r.Inconclusive, "solver returned unknown on a path (timeout "+fmt.Sprint(e.Opts.TimeoutMs)+"ms)")
		}
	}
	if outViol != nil {
		r.Violations = append(r.Violations, outViol)
	}
	r.Violations = append(r.Violations, raceViols...)
	for _, ev := range st.events {
		switch ev.Kind {
		case EvAssertHolds, EvAssertViolated, EvAssertUnknown:
			a := r.Asserts[ev.ID]
			if a == nil {
				a = &AssertStat{ID: ev.ID}
				r.Asserts[ev.ID] = a
			}
			switch ev.Kind {
			case EvAssertHolds:
				a.Holds++
				if ev.Concrete {
					a.Concrete++
				}
			case EvAssertViolated:
				a.Violated++
				r.Violations = append(r.Violations, &Violation{Kind: "assert", ID: ev.ID, Msg: ev.Msg, Model: ev.Model, Inputs: st.inputs, Trace: st.trace})
			case EvAssertUnknown:
				a.Unknown++
				if len(r.Inconclusive) < 50 {
					r.Inconclusive = append(r.Inconclusive, "assertion "+ev.ID+": solver unknown")
				}
			}
		case EvKnownObserved:
			if _, ok := r.Known[ev.ID]; !ok {
				r.Known[ev.ID] = &Violation{Kind: "known", ID: ev.ID, Msg: ev.Msg, Model: ev.Model, Inputs: st.inputs, Trace: st.trace, Panic: st.panicInfo}
			}
		case EvReach:
			r.Reached[ev.ID]++
		}
	}
	if len(r.Samples) < 3 && st.outcome == OutOK && len(st.pc) > 0 {
		r.Samples = append(r.Samples, fmt.Sprintf("path with %d decisions, %d pc conjuncts, last: %s", len(st.trace), len(st.pc), trunc(st.pc[len(st.pc)-1].String(), 300)))
	}
	if e.Opts.MaxPaths > 0 && r.Paths >= e.Opts.MaxPaths {
		r.Truncated = true
		e.stop.Store(true)
		e.cond.Broadcast()
	}
	if !e.Opts.Deadline.IsZero() && time.Now().After(e.Opts.Deadline) {
		r.Truncated = true
		e.stop.Store(true)
		e.cond.Broadcast()
	}
}

func contains(s, sub string) bool {
	return len(sub) > 0 && len(s) >= len(sub) && (indexOf(s, sub) >= 0)
}

func indexOf(s, sub string) int {
	for i := 0; i+len(sub) <= len(s); i++ {
		if s[i:i+len(sub)] == sub {
			return i
		}
	}
	return -1
}

func trunc(s string, n int) string {
	if len(s) > n {
		return s[:n] + "..."
	}
	return s
}

func (r *Report) SortedAsserts() []*AssertStat {
	var out []*AssertStat
	for _, a := range r.Asserts {
		out = append(out, a)
	}
	sort.Slice(out, func(i, j int) bool { return out[i].ID < out[j].ID })
	return out
}

var _ = debug.Stack
