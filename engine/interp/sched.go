package interp

// Goroutines, channels, select and sync primitives under a deterministic
// scheduler. Target goroutines are real Go goroutines, but exactly one runs at
// a time (baton passing), so the interpreter state needs no locking.

import (
	"fmt"
	"go/token"
	"go/types"

	"golang.org/x/tools/go/ssa"
)

type gor struct {
	id       int
	name     string
	wake     chan struct{}
	done     bool
	blocked  bool
	inRunq   bool
	waitDesc string
}

type selState struct {
	fired       bool
	caseIdx     int
	val         value
	ok          bool
	closedPanic bool
}

type waiter struct {
	g       *gor
	sel     *selState
	caseIdx int
	val     value // send
}

type schan struct {
	id      int
	cap     int
	buf     []value
	closed  bool
	recvq   []*waiter
	sendq   []*waiter
	elem    types.Type
	senders map[int]bool
	recvers map[int]bool
	site    string
}

func (c *schan) idOrZero() int {
	if c == nil {
		return 0
	}
	return c.id
}

func (c *schan) length() int {
	if c == nil {
		return 0
	}
	return len(c.buf)
}

func (c *schan) capacity() int {
	if c == nil {
		return 0
	}
	return c.cap
}

func (st *pathState) newChan(size int, elem types.Type, instr *ssa.MakeChan) *schan {
	if size < 0 {
		st.cur.fail(st, "makechan: size out of range")
	}
	st.nextChan++
	if st.w.eng.Opts.ChanScale > 1 && size >= st.w.eng.Opts.ChanScaleMin {
		size = size / st.w.eng.Opts.ChanScale
	}
	c := &schan{id: st.nextChan, cap: size, elem: elem, senders: map[int]bool{}, recvers: map[int]bool{}}
	return c
}

func (g *gor) fail(st *pathState, msg string) {
	panic(targetPanic{v: iface{t: st.w.eng.P.runtimeErrorString, v: msg}, rt: true})
}

// ---- scheduling ----

func (st *pathState) ready(g *gor) {
	if g.done || g.inRunq {
		return
	}
	g.inRunq = true
	st.runq = append(st.runq, g)
}

func (st *pathState) pickNext() *gor {
	if len(st.runq) == 0 {
		return nil
	}
	k := 0
	if st.explore && len(st.runq) > 1 && st.schedSteps < st.schedBudget {
		// a deviation from the FIFO order costs one unit of the deviation budget
		k = st.chooseFree(len(st.runq))
		if k != 0 {
			st.schedSteps++
		}
	}
	g := st.runq[k]
	st.runq = append(st.runq[:k:k], st.runq[k+1:]...)
	g.inRunq = false
	return g
}

// switchFrom hands the baton to the next runnable goroutine and waits until g
// is resumed. If nothing is runnable the path deadlocks.
func (st *pathState) switchFrom(g *gor) {
	next := st.pickNext()
	if next == nil {
		st.endPath(OutDeadlock, "all goroutines are blocked: "+st.describeGors())
	}
	if next == g {
		return
	}
	st.cur = next
	next.wake <- struct{}{}
	<-g.wake
	if st.dead {
		panic(killedAbort{})
	}
	st.cur = g
}

func (st *pathState) block(g *gor, desc string) {
	g.blocked = true
	g.waitDesc = desc
	st.switchFrom(g)
	g.blocked = false
}

// yield lets other runnable goroutines proceed (time.Sleep, runtime.Gosched).
func (st *pathState) yield(g *gor) {
	if len(st.runq) == 0 {
		return
	}
	st.ready(g)
	st.switchFrom(g)
}

// visible is called after each visible operation (channel op, select, lock,
// atomic). In exploring mode the current goroutine may be preempted here in
// favour of any other runnable one, as long as the deviation budget lasts:
// the default schedule is the cooperative FIFO one, and every schedule that
// differs from it in at most schedBudget scheduling decisions is explored.
func (st *pathState) visible(g *gor) {
	if !st.explore || len(st.runq) == 0 || st.schedSteps >= st.schedBudget {
		return
	}
	k := st.chooseFree(1 + len(st.runq))
	if k == 0 {
		return
	}
	st.schedSteps++
	next := st.runq[k-1]
	st.runq = append(st.runq[:k-1:k-1], st.runq[k:]...)
	next.inRunq = false
	// g stays runnable, at the back of the queue
	g.inRunq = true
	st.runq = append(st.runq, g)
	st.cur = next
	next.wake <- struct{}{}
	<-g.wake
	if st.dead {
		panic(killedAbort{})
	}
	st.cur = g
}

func (st *pathState) killAll(self *gor) {
	st.dead = true
	for _, g := range st.gors {
		if g != self && !g.done {
			select {
			case g.wake <- struct{}{}:
			default:
			}
		}
	}
}

func (st *pathState) spawn(fr *frame, instr *ssa.Go, fn value, args []value) {
	name := "go"
	switch f := fn.(type) {
	case *ssa.Function:
		name = f.Name()
	case *closure:
		name = f.Fn.Name()
	}
	g := &gor{id: len(st.gors), name: name, wake: make(chan struct{}, 1)}
	st.gors = append(st.gors, g)
	st.raceFork(fr.g.id, g.id)
	st.ready(g)
	i := fr.i
	pos := instr.Pos()
	st.startGor(g, func() { call(i, nil, pos, fn, args) })
	st.visible(fr.g)
}

func (st *pathState) startGor(g *gor, body func()) {
	st.wg.Add(1)
	go func() {
		defer st.wg.Done()
		<-g.wake
		if st.dead {
			return
		}
		st.cur = g
		defer func() {
			r := recover()
			g.done = true
			switch p := r.(type) {
			case nil:
				if g == st.main {
					if !st.outcomeSet {
						st.outcomeSet = true
						st.outcome = OutOK
					}
					st.killAll(g)
					return
				}
				// hand over
				next := st.pickNext()
				if next == nil {
					if !st.outcomeSet {
						st.outcomeSet = true
						st.outcome = OutDeadlock
						st.msg = "all goroutines are blocked: " + st.describeGors()
					}
					st.killAll(g)
					return
				}
				st.cur = next
				next.wake <- struct{}{}
			case killedAbort:
			case engineAbort:
				st.killAll(g)
			case targetPanic:
				if !st.outcomeSet {
					st.outcomeSet = true
					st.outcome = OutPanic
					st.panicInfo = &PanicInfo{Msg: panicMessage(p), Site: p.site, Stack: p.stack, Runtime: p.rt, Gor: g.id}
					st.msg = "panic: " + st.panicInfo.Msg
				}
				st.killAll(g)
			default:
				func() {
					defer func() { recover() }()
					st.w.eng.P.dummy()
				}()
				st.engineError(fmt.Sprintf("engine panic at goroutine top: %v", r))
				st.killAll(g)
			}
		}()
		body()
	}()
}

func (P *Program) dummy() {}

func panicMessage(p targetPanic) string {
	switch v := p.v.(type) {
	case iface:
		if s, ok := v.v.(string); ok {
			if p.rt {
				return "runtime error: " + s
			}
			return s
		}
		if v.t != nil {
			return fmt.Sprintf("%s %s", v.t.String(), toString(v.v))
		}
	}
	return toString(p.v)
}

// ---- channels ----

func (c *schan) firstRecv() *waiter {
	for len(c.recvq) > 0 {
		w := c.recvq[0]
		c.recvq = c.recvq[1:]
		if !w.sel.fired {
			return w
		}
	}
	return nil
}

func (c *schan) firstSend() *waiter {
	for len(c.sendq) > 0 {
		w := c.sendq[0]
		c.sendq = c.sendq[1:]
		if !w.sel.fired {
			return w
		}
	}
	return nil
}

func (c *schan) hasRecvWaiter() bool {
	for _, w := range c.recvq {
		if !w.sel.fired {
			return true
		}
	}
	return false
}

func (c *schan) hasSendWaiter() bool {
	for _, w := range c.sendq {
		if !w.sel.fired {
			return true
		}
	}
	return false
}

func (st *pathState) noteUse(c *schan, g *gor, send bool) {
	if send {
		c.senders[g.id] = true
	} else {
		c.recvers[g.id] = true
	}
}

// trySend performs a send if it can proceed without blocking.
func (st *pathState) trySend(fr *frame, c *schan, v value) bool {
	if c.closed {
		fr.i.rtPanic("send on closed channel")
	}
	if w := c.firstRecv(); w != nil {
		w.sel.fired, w.sel.caseIdx, w.sel.val, w.sel.ok = true, w.caseIdx, v, true
		st.ready(w.g)
		return true
	}
	if len(c.buf) < c.cap {
		c.buf = append(c.buf, v)
		return true
	}
	return false
}

func (c *schan) canSend() bool {
	return c.closed || c.hasRecvWaiter() || len(c.buf) < c.cap
}

func (c *schan) canRecv() bool {
	return len(c.buf) > 0 || c.hasSendWaiter() || c.closed
}

// tryRecv performs a receive if it can proceed without blocking.
func (st *pathState) tryRecv(c *schan) (v value, ok bool, done bool) {
	if len(c.buf) > 0 {
		v = c.buf[0]
		c.buf = c.buf[1:]
		if w := c.firstSend(); w != nil {
			c.buf = append(c.buf, w.val)
			w.sel.fired, w.sel.caseIdx = true, w.caseIdx
			st.ready(w.g)
		}
		return v, true, true
	}
	if w := c.firstSend(); w != nil {
		w.sel.fired, w.sel.caseIdx = true, w.caseIdx
		st.ready(w.g)
		return w.val, true, true
	}
	if c.closed {
		return nil, false, true
	}
	return nil, false, false
}

func chanSend(fr *frame, c *schan, v value) {
	st := fr.i.st
	g := fr.g
	if c == nil {
		st.block(g, "send on nil channel (forever)")
		st.endPath(OutDeadlock, "goroutine woke from nil-channel send")
	}
	st.noteUse(c, g, true)
	st.raceRelease(g, c)
	if st.trySend(fr, c, v) {
		st.visible(g)
		return
	}
	sel := &selState{}
	c.sendq = append(c.sendq, &waiter{g: g, sel: sel, val: v})
	st.block(g, fmt.Sprintf("send on chan#%d (len %d cap %d)", c.id, len(c.buf), c.cap))
	if sel.closedPanic {
		fr.i.rtPanic("send on closed channel")
	}
	st.visible(g)
}

func chanRecv(fr *frame, c *schan) (value, bool) {
	st := fr.i.st
	g := fr.g
	if c == nil {
		st.block(g, "receive from nil channel (forever)")
		st.endPath(OutDeadlock, "goroutine woke from nil-channel receive")
	}
	st.noteUse(c, g, false)
	if v, ok, done := st.tryRecv(c); done {
		st.raceAcquire(g, c)
		st.visible(g)
		return v, ok
	}
	sel := &selState{}
	c.recvq = append(c.recvq, &waiter{g: g, sel: sel})
	st.block(g, fmt.Sprintf("receive from chan#%d", c.id))
	st.raceAcquire(g, c)
	st.visible(g)
	return sel.val, sel.ok
}

func chanClose(fr *frame, c *schan) {
	st := fr.i.st
	if c == nil {
		fr.i.rtPanic("close of nil channel")
	}
	if c.closed {
		fr.i.rtPanic("close of closed channel")
	}
	c.closed = true
	st.raceRelease(fr.g, c)
	for {
		w := c.firstRecv()
		if w == nil {
			break
		}
		w.sel.fired, w.sel.caseIdx, w.sel.val, w.sel.ok = true, w.caseIdx, nil, false
		st.ready(w.g)
	}
	for {
		w := c.firstSend()
		if w == nil {
			break
		}
		w.sel.fired, w.sel.caseIdx, w.sel.closedPanic = true, w.caseIdx, true
		st.ready(w.g)
	}
	st.visible(fr.g)
}

func doSelect(fr *frame, instr *ssa.Select) value {
	st := fr.i.st
	g := fr.g
	type cs struct {
		c    *schan
		send bool
		v    value
	}
	cases := make([]cs, len(instr.States))
	var readyIdx []int
	for k, s := range instr.States {
		c := fr.get(s.Chan).(*schan)
		cases[k] = cs{c: c, send: s.Dir == types.SendOnly}
		if s.Send != nil {
			cases[k].v = fr.get(s.Send)
			if c != nil {
				st.raceRelease(g, c)
			}
		}
		if c == nil {
			continue
		}
		if cases[k].send && c.canSend() || !cases[k].send && c.canRecv() {
			readyIdx = append(readyIdx, k)
		}
	}
	chosen := -1
	var rv value
	rok := false
	if len(readyIdx) > 0 {
		pick := 0
		if len(readyIdx) > 1 {
			if st.explore {
				pick = st.chooseFree(len(readyIdx))
			} else {
				st.kahnBroken = append(st.kahnBroken, "select with several ready cases in "+fr.i.P.name(fr.fn))
			}
		}
		chosen = readyIdx[pick]
		c := cases[chosen]
		st.noteUse(c.c, g, c.send)
		if c.send {
			if !st.trySend(fr, c.c, c.v) {
				panic("select: send not ready")
			}
		} else {
			v, ok, done := st.tryRecv(c.c)
			if !done {
				panic("select: recv not ready")
			}
			rv, rok = v, ok
		}
	} else if !instr.Blocking {
		chosen = -1
		// a polling loop must not starve the goroutines it is waiting for
		st.yield(g)
	} else {
		sel := &selState{}
		n := 0
		for k, c := range cases {
			if c.c == nil {
				continue
			}
			n++
			w := &waiter{g: g, sel: sel, caseIdx: k, val: c.v}
			st.noteUse(c.c, g, c.send)
			if c.send {
				c.c.sendq = append(c.c.sendq, w)
			} else {
				c.c.recvq = append(c.c.recvq, w)
			}
		}
		st.block(g, fmt.Sprintf("select over %d channels in %s", n, fr.fn.Name()))
		chosen = sel.caseIdx
		if sel.closedPanic {
			fr.i.rtPanic("send on closed channel")
		}
		rv, rok = sel.val, sel.ok
	}
	if st.race != nil && chosen >= 0 && !cases[chosen].send {
		st.raceAcquire(g, cases[chosen].c)
	}
	r := tuple{chosen, rok}
	for k, s := range instr.States {
		if s.Dir == types.RecvOnly {
			var v value
			if k == chosen && rok {
				v = rv
			} else {
				v = zero(s.Chan.Type().Underlying().(*types.Chan).Elem())
			}
			r = append(r, v)
		}
	}
	st.visible(g)
	return r
}

// ---- sync primitives (native models keyed by the receiver's address) ----

type mutexState struct {
	writer  bool
	readers int
	waiters []*gor
	owner   int
}

type wgState struct {
	n       int
	waiters []*gor
}

type onceState struct {
	done bool
}

func (st *pathState) mutex(p *value) *mutexState {
	m := st.mutexes[p]
	if m == nil {
		m = &mutexState{}
		st.mutexes[p] = m
	}
	return m
}

func (st *pathState) mutexLock(fr *frame, p *value, read bool) {
	m := st.mutex(p)
	for {
		if read && !m.writer {
			m.readers++
			break
		}
		if !read && !m.writer && m.readers == 0 {
			m.writer = true
			m.owner = fr.g.id
			break
		}
		m.waiters = append(m.waiters, fr.g)
		st.block(fr.g, "mutex lock")
	}
	st.raceAcquire(fr.g, p)
	st.visible(fr.g)
}

func (st *pathState) mutexUnlock(fr *frame, p *value, read bool) {
	m := st.mutex(p)
	st.raceRelease(fr.g, p)
	if read {
		if m.readers == 0 {
			panic(targetPanic{v: iface{t: fr.i.runtimeErrorString, v: "sync: RUnlock of unlocked RWMutex"}, rt: true})
		}
		m.readers--
	} else {
		if !m.writer {
			panic(targetPanic{v: iface{t: fr.i.runtimeErrorString, v: "sync: unlock of unlocked mutex"}, rt: true})
		}
		m.writer = false
	}
	ws := m.waiters
	m.waiters = nil
	for _, g := range ws {
		st.ready(g)
	}
	st.visible(fr.g)
	st.yield(fr.g) // a loop that only locks and unlocks must not starve the others
}

func (st *pathState) wgAdd(fr *frame, p *value, d int) {
	w := st.wgs[p]
	if w == nil {
		w = &wgState{}
		st.wgs[p] = w
	}
	if d < 0 {
		st.raceRelease(fr.g, p)
	}
	w.n += d
	if w.n < 0 {
		panic(targetPanic{v: iface{t: fr.i.runtimeErrorString, v: "sync: negative WaitGroup counter"}, rt: true})
	}
	if w.n == 0 {
		for _, g := range w.waiters {
			st.ready(g)
		}
		w.waiters = nil
	}
	st.visible(fr.g)
}

func (st *pathState) wgWait(fr *frame, p *value) {
	w := st.wgs[p]
	for w != nil && w.n > 0 {
		w.waiters = append(w.waiters, fr.g)
		st.block(fr.g, "WaitGroup.Wait")
	}
	st.raceAcquire(fr.g, p)
	st.visible(fr.g)
}

var _ = token.NoPos
