// vcheck: solver-based checks of bmeg/grip properties.
//
//	vcheck run <PROPERTY> [--tier quick|thorough] [--unit name] [--harness name] [-v]
//	vcheck replay <replay.json>
package main

import (
	"encoding/hex"
	"encoding/json"
	"flag"
	"fmt"
	"go/types"
	"math"
	"os"
	"os/exec"
	"path/filepath"
	"runtime"
	"sort"
	"strconv"
	"strings"
	"sync"
	"time"

	"golang.org/x/tools/go/packages"
	"golang.org/x/tools/go/ssa"
	"golang.org/x/tools/go/ssa/ssautil"

	"verif/engine/interp"
)

var repoDir = "/repo"

var verifDir = "/verif"

type TierOpts struct {
	Unwind      int      `json:"unwind"`
	StepBudget  int64    `json:"step_budget"`
	MaxPaths    int64    `json:"max_paths"`
	TimeoutMs   int      `json:"solver_timeout_ms"`
	Explore     bool     `json:"explore"`
	SchedBudget int      `json:"sched_budget"`
	Livelock    bool     `json:"unwind_is_livelock"`
	ChanScale   int      `json:"chan_scale"`
	ChanScaleMin int     `json:"chan_scale_min"`
	MakeCap     int      `json:"make_cap"`
	ConstRewrite []interp.ConstRewrite `json:"const_rewrite"`
	Race        bool     `json:"race"`
	WallS       int      `json:"wall_s"`
	Skip        bool     `json:"skip"`
	Params      map[string]int `json:"params"`
}

type HarnessCfg struct {
	Func     string    `json:"func"`
	Bounds   string    `json:"bounds"`
	Quick    *TierOpts `json:"quick"`
	Thorough *TierOpts `json:"thorough"`
}

type UnitCfg struct {
	Name      string            `json:"name"`
	Pkg       string            `json:"pkg"` // import path
	Files     []string          `json:"files"`
	Harnesses []HarnessCfg      `json:"harnesses"`
	Redirects map[string]string `json:"redirects"`
	Noop      []string          `json:"noop_pkgs"`
	InitExtra []string          `json:"init_pkgs"`
}

type PropCfg struct {
	Property    string    `json:"property"`
	Level       string    `json:"level"`
	Units       []UnitCfg `json:"units"`
	Assumptions []string  `json:"assumptions"`
	Outside     []string  `json:"outside"`
}

type Finding struct {
	ID        string `json:"id"`
	Property  string `json:"property"`
	Status    string `json:"status"` // "known" | "fixed"
	What      string `json:"what"`
	PanicSite string `json:"panic_site,omitempty"`
	PanicSites []string `json:"panic_sites,omitempty"`
	Commit    string `json:"commit,omitempty"`
}

type FindingsFile struct {
	Findings []Finding `json:"findings"`
}

type ReplayFile struct {
	Property string            `json:"property"`
	Unit     string            `json:"unit"`
	Pkg      string            `json:"pkg"`
	Files    []string          `json:"files"`
	Harness  string            `json:"harness"`
	Kind     string            `json:"kind"` // assert | panic | deadlock
	ID       string            `json:"id"`
	Msg      string            `json:"msg"`
	Values   map[string]string `json:"values"`
	Readable map[string]string `json:"readable"`
	Trace    []int64           `json:"trace"`
	Params   map[string]int    `json:"params"`
	Repeat   int               `json:"repeat,omitempty"` // native runs to try (schedule-dependent counterexamples)
	Race     bool              `json:"race,omitempty"`   // replay under the Go race detector
}

func main() {
	if len(os.Args) < 2 {
		usage()
	}
	if d := os.Getenv("VERIF_DIR"); d != "" {
		verifDir = d
	}
	if d := os.Getenv("VCHECK_REPO"); d != "" {
		// development aid: check a scratch worktree instead of /repo (never used by registered commands)
		repoDir = d
	}
	switch os.Args[1] {
	case "run":
		rc := cmdRun(os.Args[2:])
		cleanupReplayBins()
		os.Exit(rc)
	case "replay":
		rc := cmdReplay(os.Args[2:])
		cleanupReplayBins()
		os.Exit(rc)
	default:
		usage()
	}
}

func usage() {
	fmt.Fprintln(os.Stderr, "usage: vcheck run <PROPERTY> [--tier quick|thorough] | vcheck replay <file>")
	os.Exit(2)
}

func loadFindings() []Finding {
	var ff FindingsFile
	b, err := os.ReadFile(filepath.Join(verifDir, "known_findings.json"))
	if err != nil {
		return nil
	}
	if err := json.Unmarshal(b, &ff); err != nil {
		fmt.Fprintln(os.Stderr, "known_findings.json:", err)
		os.Exit(2)
	}
	return ff.Findings
}

// loadUnit loads the package under test with the harness overlay and builds SSA.
func loadUnit(prop string, u UnitCfg) (*interp.Program, *ssa.Package, error) {
	pkgDir := filepath.Join(repoDir, strings.TrimPrefix(u.Pkg, "github.com/bmeg/grip"))
	overlay := map[string][]byte{}
	pkgName, err := packageName(pkgDir)
	if err != nil {
		return nil, nil, err
	}
	add := func(src, dstName string) error {
		b, err := os.ReadFile(src)
		if err != nil {
			return err
		}
		s := strings.Replace(string(b), "package PKG", "package "+pkgName, 1)
		overlay[filepath.Join(pkgDir, dstName)] = []byte(s)
		return nil
	}
	if err := add(filepath.Join(verifDir, "harness/shim/vshim.go"), "zz_verif_shim.go"); err != nil {
		return nil, nil, err
	}
	for _, f := range u.Files {
		if err := add(filepath.Join(verifDir, "harness", f), "zz_verif_"+strings.ReplaceAll(f, "/", "_")); err != nil {
			return nil, nil, err
		}
	}
	cfg := &packages.Config{
		Mode:    packages.LoadAllSyntax,
		Dir:     repoDir,
		Overlay: overlay,
		Env:     append(os.Environ(), "GOFLAGS=-mod=mod", "GOPROXY=off", "GOSUMDB=off", "GOTOOLCHAIN=local"),
	}
	pkgs, err := packages.Load(cfg, u.Pkg)
	if err != nil {
		return nil, nil, err
	}
	if packages.PrintErrors(pkgs) > 0 {
		return nil, nil, fmt.Errorf("package %s has errors (harness does not compile against the current tree?)", u.Pkg)
	}
	prog, spkgs := ssautil.AllPackages(pkgs, ssa.InstantiateGenerics|ssa.SanityCheckFunctions*0)
	var main *ssa.Package
	for _, p := range spkgs {
		if p != nil && p.Pkg.Path() == u.Pkg {
			main = p
		}
	}
	if main == nil {
		return nil, nil, fmt.Errorf("package %s not found after load", u.Pkg)
	}
	main.Build()
	P := interp.NewProgram(prog, types.SizesFor("gc", "amd64"))
	for _, n := range []string{"github.com/bmeg/grip/log", "github.com/sirupsen/logrus", "log", "github.com/kr/pretty", "github.com/davecgh/go-spew/spew"} {
		P.NoopPkgs[n] = true
	}
	for _, n := range u.Noop {
		P.NoopPkgs[n] = true
	}
	initOK := map[string]bool{"errors": false, "io": true, "context": true, "strings": true, "bytes": true, "strconv": true, "sort": true, "math": true,
		"unicode/utf8": true, "time": false, "sync": true, "fmt": false, "io/fs": false,
		"google.golang.org/protobuf/types/known/structpb": false,
		"github.com/hashicorp/go-multierror": true, "github.com/spf13/cast": true, "github.com/bmeg/jsonpath": true,
		"golang.org/x/sync/errgroup": true, "google.golang.org/grpc/codes": true, "google.golang.org/grpc/status": false,
	}
	for _, n := range u.InitExtra {
		initOK[n] = true
	}
	P.InitAllow = func(path string) bool {
		if strings.HasPrefix(path, "github.com/bmeg/grip") {
			return !P.NoopPkgs[path]
		}
		return initOK[path]
	}
	for from, to := range u.Redirects {
		f := main.Func(to)
		if f == nil {
			return nil, nil, fmt.Errorf("redirect target %s not found in harness package", to)
		}
		P.Redirects[from] = f
	}
	return P, main, nil
}

func packageName(dir string) (string, error) {
	ents, err := os.ReadDir(dir)
	if err != nil {
		return "", err
	}
	for _, e := range ents {
		n := e.Name()
		if strings.HasSuffix(n, ".go") && !strings.HasSuffix(n, "_test.go") {
			b, err := os.ReadFile(filepath.Join(dir, n))
			if err != nil {
				continue
			}
			for _, l := range strings.Split(string(b), "\n") {
				l = strings.TrimSpace(l)
				if strings.HasPrefix(l, "package ") {
					return strings.Fields(l)[1], nil
				}
			}
		}
	}
	return "", fmt.Errorf("no package clause found in %s", dir)
}

type harnessEvidence struct {
	Unit        string              `json:"unit"`
	Harness     string              `json:"harness"`
	Bounds      string              `json:"bounds"`
	Opts        *TierOpts           `json:"opts"`
	Paths       int64               `json:"paths"`
	Outcomes    map[string]int64    `json:"outcomes"`
	Steps       int64               `json:"ssa_instructions"`
	Asserts     []*interp.AssertStat `json:"assertions"`
	Reached     map[string]int64    `json:"reached"`
	Queries     int                 `json:"queries"`
	Sat         int                 `json:"sat"`
	Unsat       int                 `json:"unsat"`
	Unknown     int                 `json:"unknown"`
	SolverS     float64             `json:"solver_time_s"`
	WallS       float64             `json:"wall_s"`
	Exhaustive  bool                `json:"exhaustive"`
	Inconclusive []string           `json:"inconclusive,omitempty"`
	Known       []string            `json:"known_findings_seen,omitempty"`
	Violations  int                 `json:"violations"`
	Spurious    []string            `json:"spurious,omitempty"`
	Vacuity     string              `json:"vacuity"`
	Samples     []string            `json:"samples,omitempty"`
	NFuncs      int                 `json:"functions_encoded_count"`
	PassVal     []string            `json:"translator_validation,omitempty"`
	Cross       []*interp.CrossStat `json:"second_solver_crosscheck,omitempty"`
	CrossOf     int64               `json:"unsat_verdicts_of_primary_solver,omitempty"`
}

func cmdRun(args []string) int {
	fs := flag.NewFlagSet("run", flag.ExitOnError)
	tier := fs.String("tier", "", "quick|thorough")
	onlyUnit := fs.String("unit", "", "only this unit")
	onlyH := fs.String("harness", "", "only this harness")
	verbose := fs.Bool("v", false, "verbose")
	trace := fs.Bool("trace", false, "trace instructions")
	noReplay := fs.Bool("no-replay", false, "do not replay natively (debug)")
	workers := fs.Int("workers", 0, "worker count")
	if len(args) < 1 {
		usage()
	}
	prop := args[0]
	fs.Parse(args[1:])
	if *tier == "" {
		*tier = os.Getenv("VERIF_TIER")
	}
	if *tier == "" {
		*tier = "quick"
	}
	seed := 0
	if s := os.Getenv("VERIF_SEED"); s != "" {
		seed, _ = strconv.Atoi(s)
	}
	t0 := time.Now()
	var cfg PropCfg
	b, err := os.ReadFile(filepath.Join(verifDir, "harness", prop, "config.json"))
	if err != nil {
		fmt.Fprintln(os.Stderr, err)
		return 2
	}
	if err := json.Unmarshal(b, &cfg); err != nil {
		fmt.Fprintln(os.Stderr, "config.json:", err)
		return 2
	}
	findings := loadFindings()
	active := map[string]Finding{}
	var sites []interp.KnownSite
	for _, f := range findings {
		if hasProp(f.Property, prop) && f.Status == "known" {
			active[f.ID] = f
			if f.PanicSite != "" {
				sites = append(sites, interp.KnownSite{ID: f.ID, Contains: f.PanicSite})
			}
			for _, ps := range f.PanicSites {
				sites = append(sites, interp.KnownSite{ID: f.ID, Contains: ps})
			}
		}
	}
	nw := *workers
	if nw == 0 {
		nw = runtime.NumCPU()
	}
	var hev []harnessEvidence
	funcs := map[string]bool{}
	stubs := map[string]bool{}
	assumps := map[string]bool{}
	uninit := map[string]bool{}
	kahn := map[string]bool{}
	knownSeen := map[string]*interp.Violation{}
	knownCtx := map[string]replayCtx{}
	violations := 0
	var violationLines []string
	broken := false
	var totalPaths, totalSteps int64
	crossTotal := map[string]int{}
	passValOK, passValBad := 0, 0
	nativeRuns := 0
	var samples []interface{}
	allExhaustive := true

	for _, u := range cfg.Units {
		if *onlyUnit != "" && u.Name != *onlyUnit {
			continue
		}
		tl := time.Now()
		P, pkg, err := loadUnit(prop, u)
		if err != nil {
			fmt.Fprintf(os.Stderr, "unit %s: load failed: %v\n", u.Name, err)
			broken = true
			continue
		}
		if *verbose {
			fmt.Fprintf(os.Stderr, "unit %s loaded in %.1fs\n", u.Name, time.Since(tl).Seconds())
		}
		for _, h := range u.Harnesses {
			if *onlyH != "" && h.Func != *onlyH {
				continue
			}
			to := h.Quick
			if *tier == "thorough" && h.Thorough != nil {
				to = h.Thorough
			}
			if to == nil {
				to = &TierOpts{}
			}
			if to.Skip {
				continue
			}
			fn := pkg.Func(h.Func)
			if fn == nil {
				fmt.Fprintf(os.Stderr, "harness %s not found\n", h.Func)
				broken = true
				continue
			}
			opts := interp.Options{Workers: nw, Solver: "z3", TimeoutMs: 10000, Unwind: 64, StepBudget: 20_000_000, Trace: *trace,
				KnownPanicSites: sites, Explore: to.Explore, Livelock: to.Livelock, SchedBudget: to.SchedBudget, ChanScale: to.ChanScale, ChanScaleMin: to.ChanScaleMin, MakeCap: to.MakeCap, ConstRewrite: to.ConstRewrite, Race: to.Race, Params: to.Params}
			if *tier == "thorough" {
				opts.TimeoutMs = 60000
			}
			if to.TimeoutMs > 0 {
				opts.TimeoutMs = to.TimeoutMs
			}
			if to.Unwind > 0 {
				opts.Unwind = to.Unwind
			}
			if to.StepBudget > 0 {
				opts.StepBudget = to.StepBudget
			}
			opts.MaxPaths = to.MaxPaths
			if os.Getenv("VCHECK_PASSVAL") != "0" && !to.Explore && !to.Race && !*noReplay {
				opts.PassWitness = 2
				if *tier == "thorough" {
					opts.PassWitness = 5
				}
			}
			if os.Getenv("VCHECK_CROSS") != "0" {
				opts.CrossSolvers = []string{"z3-new", "cvc5"}
				opts.CrossEvery, opts.CrossMax = 40, 45
				if *tier == "thorough" {
					opts.CrossEvery, opts.CrossMax = 8, 4000
				}
			}
			wall := 900
			if *tier == "thorough" {
				wall = 3300
			}
			if to.WallS > 0 {
				wall = to.WallS
			}
			opts.Deadline = time.Now().Add(time.Duration(wall) * time.Second)
			opts.ActiveFindings = map[string]bool{}
			for id := range active {
				opts.ActiveFindings[id] = true
			}
			eng := interp.NewEngine(P, pkg, fn, opts)
			rep := eng.Run()
			totalPaths += rep.Paths
			totalSteps += rep.Steps
			he := harnessEvidence{Unit: u.Name, Harness: h.Func, Bounds: h.Bounds, Opts: to, Paths: rep.Paths, Outcomes: rep.Outcomes, Steps: rep.Steps,
				Asserts: rep.SortedAsserts(), Reached: rep.Reached, Queries: rep.Queries, Sat: rep.Sat, Unsat: rep.Unsat, Unknown: rep.Unknown,
				SolverS: rep.SolverTime.Seconds(), WallS: rep.Wall.Seconds(), Exhaustive: rep.Exhaustive, Inconclusive: rep.Inconclusive, Samples: rep.Samples, NFuncs: len(rep.Funcs), Cross: rep.Cross, CrossOf: rep.CrossSeen}
			for _, cs := range rep.Cross {
				crossTotal[cs.Solver+":queries"] += cs.Queries
				crossTotal[cs.Solver+":unsat_confirmed"] += cs.Agree
				crossTotal[cs.Solver+":answered_sat"] += cs.Disagree
				crossTotal[cs.Solver+":unknown_or_timeout"] += cs.Unknown
			}
			for k := range rep.Funcs {
				funcs[k] = true
			}
			for k := range rep.Stubs {
				stubs[k] = true
			}
			for k := range rep.Assumptions {
				assumps[k] = true
			}
			for k := range rep.Uninit {
				uninit[k] = true
			}
			for k := range rep.KahnBroken {
				kahn[k] = true
			}
			if !rep.Exhaustive {
				allExhaustive = false
			}
			// vacuity: at least one path reaches the end, every assertion id evaluated at least once
			he.Vacuity = "ok"
			if rep.Outcomes["OK"] == 0 && rep.Outcomes["STOPPED"] == 0 {
				he.Vacuity = "no path reached the end of the harness"
				if len(rep.Violations) == 0 && len(rep.Known) == 0 {
					broken = true
					fmt.Fprintf(os.Stderr, "harness %s: VACUOUS (%v) %v\n", h.Func, rep.Outcomes, rep.Inconclusive)
				}
			}
			if len(rep.Asserts) == 0 && rep.Outcomes["PANIC"] == 0 && !strings.Contains(h.Bounds, "panic-freedom") {
				he.Vacuity = "no assertion was evaluated"
				broken = true
				fmt.Fprintf(os.Stderr, "harness %s: VACUOUS, no assertion evaluated\n", h.Func)
			}
			rc := replayCtx{prop: prop, unit: u, harness: h.Func, params: to.Params}
			if to.Explore {
				rc.repeat = 40
			}
			rc.race = to.Race
			for id, kv := range rep.Known {
				he.Known = append(he.Known, id)
				if _, ok := knownSeen[id]; !ok {
					knownSeen[id] = kv
					knownCtx[id] = rc
				}
			}
			sort.Strings(he.Known)
			// violations: dedupe by (kind,id), replay natively
			if *verbose {
				shown := map[string]bool{}
				for _, v := range rep.Violations {
					d := describe(v)
					if !shown[d] && len(shown) < 25 {
						shown[d] = true
						fmt.Fprintf(os.Stderr, "   candidate %s %s: %s\n", v.Kind, v.ID, d)
					}
				}
			}
			// candidates are grouped by what they violate; within a group they are tried in a
			// fixed order until one reproduces natively (one unlucky candidate - e.g. one that
			// only exists because of an uninterpreted-function stub - must not hide the others)
			keyOf := func(v *interp.Violation) string {
				key := v.Kind + "|" + v.ID
				if v.Kind != "assert" && v.Kind != "race" {
					key = v.Kind + "|" + v.Msg
					if v.Panic != nil {
						key = v.Kind + "|" + v.Panic.Site
					}
				}
				return key
			}
			groups := map[string][]*interp.Violation{}
			var groupOrder []string
			for _, v := range rep.Violations {
				k := keyOf(v)
				if len(groups[k]) == 0 {
					groupOrder = append(groupOrder, k)
				}
				groups[k] = append(groups[k], v)
			}
			sort.Strings(groupOrder)
			maxTry := 12
			if rc.repeat > 1 {
				maxTry = 3
			}
			for _, k := range groupOrder {
				cands := groups[k]
				sort.SliceStable(cands, func(a, b int) bool { return describe(cands[a]) < describe(cands[b]) })
				tried := map[string]bool{}
				var v *interp.Violation
				confirmed, detail, path := false, "not replayed", ""
				for _, c := range cands {
					d := describe(c)
					if tried[d] {
						continue
					}
					if len(tried) >= maxTry {
						break
					}
					tried[d] = true
					v = c
					path = writeReplay(rc, c, len(violationLines))
					if *noReplay {
						confirmed = true
						break
					}
					confirmed, detail = replayNative(path, *verbose)
					nativeRuns++
					if confirmed || strings.HasPrefix(detail, "native build failed") {
						break
					}
				}
				if len(tried) > 1 {
					detail += fmt.Sprintf(" [candidate %d of %d tried]", len(tried), len(cands))
				}
				if confirmed {
					violations++
					he.Violations++
					line := fmt.Sprintf("VIOLATION property=%s replay=%s", prop, path)
					violationLines = append(violationLines, line)
					fmt.Println(line)
					fmt.Printf("  harness=%s kind=%s id=%s msg=%s native=%s\n", h.Func, v.Kind, v.ID, trunc(v.Msg, 300), detail)
				} else if strings.HasPrefix(detail, "native build failed") {
					// a tooling failure, not a verdict: never let it turn a counterexample into a pass
					fmt.Fprintf(os.Stderr, "BROKEN harness=%s: counterexample could not be replayed (%s) replay=%s\n", h.Func, detail, path)
					broken = true
				} else if v.Kind == "livelock" {
					fmt.Fprintf(os.Stderr, "harness %s: loop bound exceeded (%s) but non-termination not reproduced natively (%s): inconclusive\n", h.Func, trunc(v.Msg, 200), detail)
					allExhaustive = false
				} else {
					he.Spurious = append(he.Spurious, fmt.Sprintf("%s %s: counterexample did not reproduce natively (%s); replay=%s", v.Kind, v.ID, detail, path))
					fmt.Fprintf(os.Stderr, "SPURIOUS harness=%s kind=%s id=%s (%s) replay=%s\n", h.Func, v.Kind, v.ID, detail, path)
					allExhaustive = false
				}
			}
			// translator validation: the model of a path on which the engine found every
			// assertion to hold is run natively; the native run must pass too and evaluate
			// the same assertion ids
			pws := rep.PassWitnesses
			if len(pws) > opts.PassWitness {
				pws = pws[len(pws)-opts.PassWitness:] // the deepest sampled paths (path 1, 7, 49, ... of the run)
			}
			for i, pw := range pws {
				path := writeReplay(rc, pw, 2000+i)
				ok, detail := replayNative(path, *verbose)
				nativeRuns++
				if ok {
					passValOK++
					he.PassVal = append(he.PassVal, "agrees: "+describe(pw))
					os.Remove(path)
				} else if strings.HasPrefix(detail, "native build failed") {
					fmt.Fprintf(os.Stderr, "BROKEN harness=%s: passing path could not be replayed (%s)\n", h.Func, detail)
					broken = true
				} else {
					passValBad++
					he.PassVal = append(he.PassVal, "MISMATCH: "+detail+" replay="+path)
					fmt.Fprintf(os.Stderr, "TRANSLATOR-MISMATCH harness=%s: the engine decided every assertion on this path, the native run of its model disagrees (%s) replay=%s: inconclusive\n", h.Func, detail, path)
					allExhaustive = false
					he.Exhaustive = false
				}
			}
			if len(rep.Inconclusive) > 0 {
				cnt := map[string]int{}
				var order []string
				for _, m := range rep.Inconclusive {
					k := trunc(strings.SplitN(m, "\n", 2)[0], 700)
					if os.Getenv("VCHECK_FULLMSG") != "" && strings.HasPrefix(m, "ENGINE-ERROR") {
						fmt.Fprintln(os.Stderr, "---- full engine error ----\n"+trunc(m, 6000))
					}
					if cnt[k] == 0 {
						order = append(order, k)
					}
					cnt[k]++
				}
				fmt.Fprintf(os.Stderr, "harness %s: INCONCLUSIVE at these bounds:\n", h.Func)
				for _, k := range order {
					fmt.Fprintf(os.Stderr, "   [%dx] %s\n", cnt[k], k)
				}
			}
			if *verbose {
				fmt.Fprintf(os.Stderr, "harness %s: paths=%d outcomes=%v queries=%d (sat %d unsat %d unk %d) solver=%.1fs wall=%.1fs asserts=%d\n",
					h.Func, rep.Paths, rep.Outcomes, rep.Queries, rep.Sat, rep.Unsat, rep.Unknown, rep.SolverTime.Seconds(), rep.Wall.Seconds(), len(rep.Asserts))
				for _, a := range rep.SortedAsserts() {
					fmt.Fprintf(os.Stderr, "   assert %-40s holds=%d (concrete %d) violated=%d unknown=%d\n", a.ID, a.Holds, a.Concrete, a.Violated, a.Unknown)
				}
				if len(rep.Uninit) > 0 {
					fmt.Fprintf(os.Stderr, "   uninitialised globals read: %v\n", keys(rep.Uninit))
				}
			}
			for _, s := range rep.Samples {
				if len(samples) < 6 {
					samples = append(samples, map[string]string{"harness": h.Func, "path": s})
				}
			}
			hev = append(hev, he)
		}
	}
	// known findings: print one line each (replayed natively once)
	var knownIDs []string
	for id := range knownSeen {
		knownIDs = append(knownIDs, id)
	}
	sort.Strings(knownIDs)
	var knownOut []string
	for _, id := range knownIDs {
		f := active[id]
		v := knownSeen[id]
		detail := ""
		if !*noReplay && os.Getenv("VCHECK_REPLAY_KNOWN") != "0" {
			path := writeReplay(knownCtx[id], v, 1000+len(knownOut))
			ok, d := replayNative(path, *verbose)
			nativeRuns++
			detail = fmt.Sprintf(" [native replay: %v %s]", ok, d)
		}
		line := fmt.Sprintf("KNOWN-FINDING: property=%s %s: %s%s", prop, id, f.What, detail)
		fmt.Println(line)
		knownOut = append(knownOut, line)
	}
	for id, f := range active {
		if _, ok := knownSeen[id]; !ok {
			fmt.Fprintf(os.Stderr, "note: listed finding %s (%s) was not observed on this run\n", id, f.What)
		}
	}
	if len(samples) == 0 {
		samples = append(samples, "no completed path produced a sample")
	}
	// evidence
	ev := map[string]interface{}{
		"property_id": prop,
		"tier":        *tier,
		"seed":        seed,
		"level":       "model_checking",
		"wall_s":      time.Since(t0).Seconds(),
		"violations":  violations,
		"assumptions": append(append([]string{}, cfg.Assumptions...), keys(assumps)...),
		"coverage": map[string]interface{}{
			"states":                        max64(totalPaths, 1),
			"transitions":                   max64(totalSteps, 1),
			"traces_validated_against_impl": nativeRuns,
			"samples":                       samples,
			"exhaustive":                    allExhaustive && !broken,
			"technique":                     "bounded symbolic execution of go/ssa of /repo's current tree; every branch, assertion and panic decided by z3 over all input values inside the stated bounds",
			"harnesses":                     hev,
			"functions_encoded":             keys(funcs),
			"stubs":                         keys(stubs),
			"uninitialised_globals_read":    keys(uninit),
			"schedule_dependent":            keys(kahn),
			"outside_claim":                 cfg.Outside,
			"known_findings":                knownOut,
			"solver":                        "z3 4.8.12 (incremental, one process per worker); unknown/timeouts are reported as inconclusive; a sample of its unsat verdicts (assertion discharges and pruned branches) is re-asked of z3 5.1.0 and cvc5 as standalone scripts, a sat answer there makes the harness inconclusive",
			"second_solver_crosscheck":      crossTotal,
			"translator_validation":         map[string]interface{}{"what": "models of sampled passing paths (every assertion decided to hold) run natively against the real build: the run must return, fail no assertion and evaluate the same assertion ids", "agree": passValOK, "mismatch": passValBad},
		},
	}
	// VCHECK_EVIDENCE_DIR: used when a check is run against a deliberately altered tree
	// (seeded changes), so that the committed evidence keeps describing the unchanged tree
	evDir := filepath.Join(verifDir, "evidence")
	if d := os.Getenv("VCHECK_EVIDENCE_DIR"); d != "" {
		evDir = d
	}
	os.MkdirAll(evDir, 0o755)
	eb, _ := json.MarshalIndent(ev, "", " ")
	os.WriteFile(filepath.Join(evDir, prop+".json"), eb, 0o644)
	if broken {
		fmt.Fprintln(os.Stderr, "check is BROKEN (load failure or vacuous harness)")
		return 3
	}
	if violations > 0 {
		return 1
	}
	fmt.Printf("OK property=%s tier=%s paths=%d wall=%.1fs\n", prop, *tier, totalPaths, time.Since(t0).Seconds())
	return 0
}

func hasProp(list, p string) bool {
	for _, x := range strings.Split(list, ",") {
		if strings.TrimSpace(x) == p {
			return true
		}
	}
	return false
}

func max64(a, b int64) int64 {
	if a > b {
		return a
	}
	return b
}

func keys(m map[string]bool) []string {
	out := []string{}
	for k := range m {
		out = append(out, k)
	}
	sort.Strings(out)
	return out
}

func trunc(s string, n int) string {
	if len(s) > n {
		return s[:n] + "..."
	}
	return s
}

type replayCtx struct {
	prop    string
	unit    UnitCfg
	harness string
	params  map[string]int
	repeat  int
	race    bool
}

// writeReplay turns a solver model into a replay file.
func writeReplay(rc replayCtx, v *interp.Violation, n int) string {
	rf := ReplayFile{Property: rc.prop, Unit: rc.unit.Name, Pkg: rc.unit.Pkg, Files: rc.unit.Files, Harness: rc.harness, Kind: v.Kind, ID: v.ID, Msg: v.Msg,
		Values: map[string]string{}, Readable: map[string]string{}, Trace: v.Trace, Params: rc.params, Repeat: rc.repeat, Race: rc.race}
	if v.Kind == "known" {
		rf.Kind = "known"
	}
	for _, in := range v.Inputs {
		switch in.Kind {
		case "string":
			buf := make([]byte, in.Len)
			for i, t := range in.Terms {
				buf[i] = byte(v.Model[t.Name])
			}
			rf.Values[in.Name] = hex.EncodeToString(buf)
			rf.Readable[in.Name] = strconv.Quote(string(buf))
		default:
			if len(in.Terms) == 1 {
				val := v.Model[in.Terms[0].Name]
				rf.Values[in.Name] = strconv.FormatUint(val, 10)
			}
		}
	}
	dir := filepath.Join(verifDir, "replays", rc.prop)
	os.MkdirAll(dir, 0o755)
	name := fmt.Sprintf("%s-%s-%d.json", rc.harness, sanitize(v.ID), n)
	path := filepath.Join(dir, name)
	b, _ := json.MarshalIndent(rf, "", " ")
	os.WriteFile(path, b, 0o644)
	return path
}

func describe(v *interp.Violation) string {
	var parts []string
	for _, in := range v.Inputs {
		switch in.Kind {
		case "string":
			buf := make([]byte, in.Len)
			for i, t := range in.Terms {
				buf[i] = byte(v.Model[t.Name])
			}
			parts = append(parts, fmt.Sprintf("%s=%q", in.Name, string(buf)))
		case "float64":
			parts = append(parts, fmt.Sprintf("%s=%v", in.Name, math.Float64frombits(v.Model[in.Terms[0].Name])))
		default:
			parts = append(parts, fmt.Sprintf("%s=%d", in.Name, int64(v.Model[in.Terms[0].Name])))
		}
	}
	s := strings.Join(parts, " ")
	if v.Kind != "assert" {
		s += " :: " + trunc(v.Msg, 200)
	}
	return s
}

func sanitize(s string) string {
	var sb strings.Builder
	for _, r := range s {
		if r >= 'a' && r <= 'z' || r >= 'A' && r <= 'Z' || r >= '0' && r <= '9' || r == '.' || r == '_' {
			sb.WriteRune(r)
		} else {
			sb.WriteRune('_')
		}
	}
	return sb.String()
}

// replayNative runs the harness natively (go test -overlay) on the assignment
// and reports whether the recorded failure reproduces.
var (
	replayBinMu   sync.Mutex
	replayBins    = map[string]string{}
	replayTmpDirs []string
)

func cleanupReplayBins() {
	replayBinMu.Lock()
	defer replayBinMu.Unlock()
	for _, d := range replayTmpDirs {
		os.RemoveAll(d)
	}
	replayTmpDirs, replayBins = nil, map[string]string{}
}

func replayNative(path string, verbose bool) (bool, string) {
	b, err := os.ReadFile(path)
	if err != nil {
		return false, err.Error()
	}
	var rf ReplayFile
	if err := json.Unmarshal(b, &rf); err != nil {
		return false, err.Error()
	}
	pkgDir := filepath.Join(repoDir, strings.TrimPrefix(rf.Pkg, "github.com/bmeg/grip"))
	pkgName, err := packageName(pkgDir)
	if err != nil {
		return false, err.Error()
	}
	env := append(os.Environ(), "GOFLAGS=-mod=mod", "GOPROXY=off", "GOSUMDB=off", "GOTOOLCHAIN=local", "VERIF_REPLAY="+path)
	for k, v := range rf.Params {
		env = append(env, fmt.Sprintf("VERIF_PARAM_%s=%d", k, v))
	}
	// one native binary per (package, harness files, race flag), reused by every replay of this process
	withRace := rf.Kind == "race" || rf.Race
	binKey := fmt.Sprintf("%s|%v|%v", rf.Pkg, rf.Files, withRace)
	replayBinMu.Lock()
	bin, have := replayBins[binKey]
	if !have {
		tmp, err := os.MkdirTemp("", "vcheck-replay-")
		if err != nil {
			replayBinMu.Unlock()
			return false, err.Error()
		}
		replayTmpDirs = append(replayTmpDirs, tmp)
		ov := map[string]string{}
		add := func(src, dstName string) error {
			b, err := os.ReadFile(src)
			if err != nil {
				return err
			}
			s := strings.Replace(string(b), "package PKG", "package "+pkgName, 1)
			real := filepath.Join(tmp, dstName)
			if err := os.WriteFile(real, []byte(s), 0o644); err != nil {
				return err
			}
			ov[filepath.Join(pkgDir, dstName)] = real
			return nil
		}
		if err := add(filepath.Join(verifDir, "harness/shim/vshim.go"), "zz_verif_shim.go"); err != nil {
			replayBinMu.Unlock()
			return false, err.Error()
		}
		if err := add(filepath.Join(verifDir, "harness/shim/vreplay_test.go"), "zz_verif_replay_test.go"); err != nil {
			replayBinMu.Unlock()
			return false, err.Error()
		}
		for _, f := range rf.Files {
			if err := add(filepath.Join(verifDir, "harness", f), "zz_verif_"+strings.ReplaceAll(f, "/", "_")); err != nil {
				replayBinMu.Unlock()
				return false, err.Error()
			}
		}
		ob, _ := json.Marshal(map[string]interface{}{"Replace": ov})
		ovPath := filepath.Join(tmp, "overlay.json")
		os.WriteFile(ovPath, ob, 0o644)
		bin = filepath.Join(tmp, "replay.test")
		buildArgs := []string{"test", "-vet=off", "-c", "-o", bin, "-overlay", ovPath}
		if withRace {
			buildArgs = append(buildArgs, "-race")
		}
		build := exec.Command("go", append(buildArgs, rf.Pkg)...)
		build.Dir = repoDir
		build.Env = env
		if out, err := build.CombinedOutput(); err != nil {
			replayBinMu.Unlock()
			return false, "native build failed: " + trunc(lastLines(string(out), 6), 600)
		}
		replayBins[binKey] = bin
	}
	replayBinMu.Unlock()
	runOnce := func() (bool, string) {
		cmd := exec.Command(bin, "-test.run", "^TestVerifReplay$", "-test.v", "-test.timeout", "120s", "-test.count", "1")
		cmd.Dir = pkgDir
		cmd.Env = env
		out, _ := cmd.CombinedOutput()
		txt := string(out)
		if verbose {
			fmt.Fprintln(os.Stderr, "---- native replay output ----\n"+trunc(txt, 4000))
		}
		return judgeReplay(&rf, txt)
	}
	repeat := rf.Repeat
	if repeat < 1 {
		repeat = 1
	}
	// schedule-dependent counterexamples: the native scheduler is not controlled,
	// so the run is repeated (8 at a time) until one run shows the violation
	ok, detail := false, ""
	for done := 0; done < repeat && !ok; {
		n := 8
		if repeat-done < n {
			n = repeat - done
		}
		type res struct {
			ok bool
			d  string
		}
		ch := make(chan res, n)
		for i := 0; i < n; i++ {
			go func() { o, d := runOnce(); ch <- res{o, d} }()
		}
		for i := 0; i < n; i++ {
			r := <-ch
			if r.ok && !ok {
				ok, detail = true, r.d
			} else if !ok {
				detail = r.d
			}
		}
		done += n
		if ok && repeat > 1 {
			detail += fmt.Sprintf(" [within %d native runs]", done)
		} else if !ok && repeat > 1 {
			detail += fmt.Sprintf(" [in none of %d native runs]", done)
		}
	}
	return ok, detail
}

// judgeReplay decides from the output of one native run whether it shows the violation.
func judgeReplay(rf *ReplayFile, txt string) (bool, string) {
	var failed []string
	result := ""
	for _, l := range strings.Split(txt, "\n") {
		l = strings.TrimSpace(l)
		if strings.HasPrefix(l, "VERIF-RESULT assert-failed ") {
			failed = append(failed, strings.TrimPrefix(l, "VERIF-RESULT assert-failed "))
		} else if strings.HasPrefix(l, "VERIF-RESULT ") {
			result = strings.TrimPrefix(l, "VERIF-RESULT ")
		}
	}
	{ // one mention per assertion id
		seen := map[string]bool{}
		var uniq []string
		for _, f := range failed {
			if !seen[f] {
				seen[f] = true
				uniq = append(uniq, f)
			}
		}
		failed = uniq
	}
	crashed := ""
	if result == "" {
		for _, l := range strings.Split(txt, "\n") {
			if strings.HasPrefix(l, "panic:") || strings.HasPrefix(l, "fatal error:") {
				crashed = strings.TrimSpace(l)
				break
			}
		}
		if crashed == "" && strings.Contains(txt, "test timed out") {
			crashed = "hang (test timed out)"
		}
		if crashed == "" {
			return false, "native run produced no result: " + trunc(lastLines(txt, 6), 600)
		}
	}
	switch rf.Kind {
	case "assert":
		for _, f := range failed {
			if f == rf.ID {
				return true, "assertion " + f + " failed natively"
			}
		}
		if crashed != "" {
			return false, "native run crashed instead: " + crashed
		}
		return false, "assertion did not fail natively (result: " + result + ", failed: " + strings.Join(failed, ",") + ")"
	case "panic":
		if crashed != "" {
			return true, crashed
		}
		if strings.HasPrefix(result, "panic") {
			return true, result
		}
		return false, "no panic natively (result: " + result + ")"
	case "race":
		if strings.Contains(txt, "WARNING: DATA RACE") {
			return true, "the Go race detector reports a data race natively"
		}
		return false, "no data race reported natively (result: " + result + " " + crashed + ")"
	case "deadlock", "livelock":
		if result == "hang" || strings.HasPrefix(crashed, "hang") || strings.Contains(crashed, "all goroutines are asleep") {
			return true, "native run does not terminate (20 s)"
		}
		return false, "no hang natively (result: " + result + " " + crashed + ")"
	case "pass":
		if crashed != "" {
			return false, "native run crashed: " + crashed
		}
		if len(failed) > 0 {
			return false, "native run fails " + strings.Join(failed, ",")
		}
		if result != "returned" {
			return false, "native result: " + result
		}
		evald := map[string]bool{}
		for _, l := range strings.Split(txt, "\n") {
			l = strings.TrimSpace(l)
			if strings.HasPrefix(l, "VERIF-EVAL ") {
				evald[strings.TrimPrefix(l, "VERIF-EVAL ")] = true
			}
		}
		for _, id := range strings.Split(rf.Msg, ",") {
			if id != "" && !evald[id] {
				return false, "assertion " + id + " held on the engine's path but was not evaluated natively"
			}
		}
		return true, "native run passes and evaluates the same assertions"
	case "known":
		if rf.Race && strings.Contains(txt, "WARNING: DATA RACE") {
			return true, "data race reported natively"
		}
		if len(failed) > 0 || crashed != "" || strings.HasPrefix(result, "panic") || result == "hang" {
			return true, strings.TrimSpace(strings.Join(failed, ",") + " " + crashed + " " + result)
		}
		return false, "listed finding did not reproduce natively (result: " + result + ")"
	}
	return false, "unknown kind"
}

func lastLines(s string, n int) string {
	ls := strings.Split(strings.TrimSpace(s), "\n")
	if len(ls) > n {
		ls = ls[len(ls)-n:]
	}
	return strings.Join(ls, " / ")
}

func cmdReplay(args []string) int {
	if len(args) < 1 {
		usage()
	}
	ok, detail := replayNative(args[0], true)
	fmt.Printf("replay %s: reproduced=%v (%s)\n", args[0], ok, detail)
	if ok {
		return 1
	}
	return 0
}
