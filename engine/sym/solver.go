package sym

import (
	"bufio"
	"fmt"
	"io"
	"os/exec"
	"strconv"
	"strings"
	"time"
)

type Result int

const (
	Unsat Result = iota
	Sat
	Unknown
)

func (r Result) String() string {
	return [...]string{"unsat", "sat", "unknown"}[r]
}

// Solver drives one incremental SMT solver process. The assertion stack is
// kept aligned with a list of path-condition terms so that successive queries
// sharing a prefix re-use the solver state.
type Solver struct {
	Kind      string // "z3", "z3-new", "cvc5"
	cmd       *exec.Cmd
	in        io.WriteCloser
	out       *bufio.Reader
	ctx       *Ctx
	defined   map[int]bool
	declUF    map[string]bool
	stack     []*Term // asserted terms, one push level each
	TimeoutMs int
	Queries   int
	NSat      int
	NUnsat    int
	NUnknown  int
	Time      time.Duration
	Log       io.Writer
	restarts  int
	sinceNew  int
	// XSample/XSink: second-solver cross-check of unsat verdicts. XSample is asked
	// after every unsat answer; when it says yes the whole query (path condition
	// and extra conjuncts) is rendered as a standalone script and handed to XSink.
	XSample func() bool
	XSink   func(script string)
}

func NewSolver(kind string, ctx *Ctx, timeoutMs int) (*Solver, error) {
	s := &Solver{Kind: kind, ctx: ctx, TimeoutMs: timeoutMs}
	if err := s.start(); err != nil {
		return nil, err
	}
	return s, nil
}

func (s *Solver) start() error {
	var cmd *exec.Cmd
	switch s.Kind {
	case "z3", "z3-new":
		cmd = exec.Command(s.Kind, "-in", "-smt2")
	case "cvc5":
		cmd = exec.Command("cvc5", "--incremental", "--lang=smt2", "--produce-models", fmt.Sprintf("--tlimit-per=%d", s.TimeoutMs))
	default:
		return fmt.Errorf("unknown solver %q", s.Kind)
	}
	in, err := cmd.StdinPipe()
	if err != nil {
		return err
	}
	out, err := cmd.StdoutPipe()
	if err != nil {
		return err
	}
	cmd.Stderr = cmd.Stdout
	if err := cmd.Start(); err != nil {
		return err
	}
	s.cmd, s.in, s.out = cmd, in, bufio.NewReaderSize(out, 1<<16)
	s.defined = map[int]bool{}
	s.declUF = map[string]bool{}
	s.stack = nil
	s.sinceNew = 0
	s.send("(set-option :global-declarations true)")
	s.send("(set-option :produce-models true)")
	if s.Kind != "cvc5" {
		s.send(fmt.Sprintf("(set-option :timeout %d)", s.TimeoutMs))
	}
	s.send("(set-logic ALL)")
	return nil
}

func (s *Solver) Close() {
	if s.cmd != nil {
		s.in.Close()
		s.cmd.Process.Kill()
		s.cmd.Wait()
		s.cmd = nil
	}
}

func (s *Solver) Restart() error {
	s.Close()
	s.restarts++
	return s.start()
}

func (s *Solver) send(line string) {
	if s.Log != nil {
		fmt.Fprintln(s.Log, line)
	}
	io.WriteString(s.in, line)
	io.WriteString(s.in, "\n")
}

// ref returns the name under which t is known to the solver, defining it (and
// its sub-terms) on demand.
func (s *Solver) ref(t *Term) string {
	switch t.Op {
	case OpConst:
		return Render(t, nil)
	case OpVar:
		if !s.defined[t.ID] {
			s.defined[t.ID] = true
			s.send(fmt.Sprintf("(declare-const %s %s)", QuoteName(t.Name), t.Sort()))
		}
		return QuoteName(t.Name)
	}
	name := fmt.Sprintf("t!%d", t.ID)
	if s.defined[t.ID] {
		return name
	}
	// define children first (iteratively safe enough: depth is bounded by term depth)
	if t.Op == OpApp && !s.declUF[t.Name] {
		s.declUF[t.Name] = true
		s.send(s.ctx.UFs[t.Name])
	}
	body := Render(t, s.ref)
	s.defined[t.ID] = true
	s.send(fmt.Sprintf("(define-fun %s () %s %s)", name, t.Sort(), body))
	return name
}

// align makes the solver's assertion stack equal to pc.
func (s *Solver) align(pc []*Term) {
	k := 0
	for k < len(pc) && k < len(s.stack) && pc[k] == s.stack[k] {
		k++
	}
	if n := len(s.stack) - k; n > 0 {
		s.send(fmt.Sprintf("(pop %d)", n))
		s.stack = s.stack[:k]
	}
	for _, t := range pc[k:] {
		r := s.ref(t)
		s.send("(push 1)")
		s.send("(assert " + r + ")")
		s.stack = append(s.stack, t)
	}
}

func (s *Solver) readLine() (string, error) {
	line, err := s.out.ReadString('\n')
	return strings.TrimSpace(line), err
}

// Check decides pc ∧ extra.
func (s *Solver) Check(pc []*Term, extra ...*Term) Result {
	r, _ := s.CheckModel(pc, nil, extra...)
	return r
}

// CheckModel decides pc ∧ extra and, when sat and want != nil, returns values
// for the wanted variables (bv/bool/fp-bits as uint64).
func (s *Solver) CheckModel(pc []*Term, want []*Term, extra ...*Term) (Result, map[string]uint64) {
	for _, e := range extra {
		if e.IsFalse() {
			return Unsat, nil
		}
	}
	if s.sinceNew > 20000 {
		s.Restart()
	}
	s.sinceNew++
	t0 := time.Now()
	defer func() { s.Time += time.Since(t0) }()
	s.Queries++
	s.align(pc)
	var refs []string
	for _, e := range extra {
		if !e.IsTrue() {
			refs = append(refs, s.ref(e))
		}
	}
	s.send("(push 1)")
	for _, r := range refs {
		s.send("(assert " + r + ")")
	}
	s.send("(check-sat)")
	res := Unknown
	line, err := s.readResult()
	if err != nil {
		// solver died: restart, report unknown
		s.Restart()
		s.NUnknown++
		return Unknown, nil
	}
	switch line {
	case "sat":
		res = Sat
	case "unsat":
		res = Unsat
	default:
		res = Unknown
	}
	var model map[string]uint64
	if res == Sat && len(want) > 0 {
		model = map[string]uint64{}
		var sb strings.Builder
		sb.WriteString("(get-value (")
		n := 0
		for _, v := range want {
			if !s.defined[v.ID] {
				continue // never sent to the solver: unconstrained, default 0
			}
			if v.Kind == KFP {
				continue
			}
			sb.WriteString(QuoteName(v.Name) + " ")
			n++
		}
		sb.WriteString("))")
		if n > 0 {
			s.send(sb.String())
			txt, err := s.readSexp()
			if err == nil {
				parseValues(txt, model)
			}
		}
	}
	s.send("(pop 1)")
	if res == Unsat && s.XSample != nil && s.XSink != nil && s.XSample() {
		all := make([]*Term, 0, len(pc)+len(extra))
		all = append(all, pc...)
		all = append(all, extra...)
		s.XSink(Script(s.ctx, all))
	}
	switch res {
	case Sat:
		s.NSat++
	case Unsat:
		s.NUnsat++
	default:
		s.NUnknown++
	}
	return res, model
}

func (s *Solver) readResult() (string, error) {
	for {
		line, err := s.readLine()
		if err != nil {
			return "", err
		}
		if line == "" {
			continue
		}
		if strings.HasPrefix(line, "(error") {
			// inconclusive: report as unknown but keep reading until the verdict line shows up
			if s.Log != nil {
				fmt.Fprintln(s.Log, "; SOLVER ERROR:", line)
			}
			// z3 continues after an error and still prints a verdict for check-sat;
			// we must consume it, but the verdict is not trustworthy.
			for {
				l2, err := s.readLine()
				if err != nil {
					return "", err
				}
				if l2 == "sat" || l2 == "unsat" || l2 == "unknown" || strings.HasPrefix(l2, "timeout") {
					return "unknown", nil
				}
			}
		}
		if line == "sat" || line == "unsat" || line == "unknown" || line == "timeout" {
			return line, nil
		}
		if strings.HasPrefix(line, "(:reason-unknown") || strings.HasPrefix(line, "unsupported") {
			continue
		}
		// other noise: keep reading
	}
}

// readSexp reads one balanced s-expression from the solver.
func (s *Solver) readSexp() (string, error) {
	var sb strings.Builder
	depth := 0
	started := false
	inBar := false
	for {
		b, err := s.out.ReadByte()
		if err != nil {
			return "", err
		}
		sb.WriteByte(b)
		if inBar {
			if b == '|' {
				inBar = false
			}
			continue
		}
		switch b {
		case '|':
			inBar = true
		case '(':
			depth++
			started = true
		case ')':
			depth--
		}
		if started && depth == 0 {
			return sb.String(), nil
		}
	}
}

// parseValues parses "((name value) (name value) ...)".
func parseValues(txt string, out map[string]uint64) {
	toks := tokenize(txt)
	// simple recursive structure: ( ( name val ) ... )
	i := 0
	if i >= len(toks) || toks[i] != "(" {
		return
	}
	i++
	for i < len(toks) && toks[i] == "(" {
		i++
		if i >= len(toks) {
			return
		}
		name := toks[i]
		i++
		// value: atom or list
		var val []string
		if i < len(toks) && toks[i] == "(" {
			d := 0
			for i < len(toks) {
				val = append(val, toks[i])
				if toks[i] == "(" {
					d++
				} else if toks[i] == ")" {
					d--
					if d == 0 {
						i++
						break
					}
				}
				i++
			}
		} else if i < len(toks) {
			val = []string{toks[i]}
			i++
		}
		if i < len(toks) && toks[i] == ")" {
			i++
		}
		name = strings.Trim(name, "|")
		if v, ok := parseValue(val); ok {
			out[name] = v
		}
	}
}

func parseValue(val []string) (uint64, bool) {
	if len(val) == 1 {
		a := val[0]
		switch {
		case a == "true":
			return 1, true
		case a == "false":
			return 0, true
		case strings.HasPrefix(a, "#x"):
			v, err := strconv.ParseUint(a[2:], 16, 64)
			return v, err == nil
		case strings.HasPrefix(a, "#b"):
			v, err := strconv.ParseUint(a[2:], 2, 64)
			return v, err == nil
		}
		return 0, false
	}
	// (_ bvN w)
	if len(val) == 5 && val[1] == "_" && strings.HasPrefix(val[2], "bv") {
		v, err := strconv.ParseUint(val[2][2:], 10, 64)
		return v, err == nil
	}
	return 0, false
}

func tokenize(s string) []string {
	var toks []string
	i := 0
	for i < len(s) {
		c := s[i]
		switch {
		case c == '(' || c == ')':
			toks = append(toks, string(c))
			i++
		case c == ' ' || c == '\n' || c == '\t' || c == '\r':
			i++
		case c == '|':
			j := i + 1
			for j < len(s) && s[j] != '|' {
				j++
			}
			toks = append(toks, s[i:j+1])
			i = j + 1
		default:
			j := i
			for j < len(s) && s[j] != '(' && s[j] != ')' && s[j] != ' ' && s[j] != '\n' && s[j] != '\t' && s[j] != '\r' {
				j++
			}
			toks = append(toks, s[i:j])
			i = j
		}
	}
	return toks
}

// Script renders a standalone SMT-LIB2 script deciding the conjunction of ts
// (for cross-checking with a second solver and for evidence samples).
func Script(ctx *Ctx, ts []*Term) string {
	var sb strings.Builder
	sb.WriteString("(set-logic ALL)\n")
	defined := map[int]bool{}
	declUF := map[string]bool{}
	var ref func(t *Term) string
	ref = func(t *Term) string {
		switch t.Op {
		case OpConst:
			return Render(t, nil)
		case OpVar:
			if !defined[t.ID] {
				defined[t.ID] = true
				fmt.Fprintf(&sb, "(declare-const %s %s)\n", QuoteName(t.Name), t.Sort())
			}
			return QuoteName(t.Name)
		}
		name := fmt.Sprintf("t!%d", t.ID)
		if defined[t.ID] {
			return name
		}
		if t.Op == OpApp && !declUF[t.Name] {
			declUF[t.Name] = true
			sb.WriteString(ctx.UFs[t.Name] + "\n")
		}
		body := Render(t, ref)
		defined[t.ID] = true
		fmt.Fprintf(&sb, "(define-fun %s () %s %s)\n", name, t.Sort(), body)
		return name
	}
	for _, t := range ts {
		r := ref(t)
		fmt.Fprintf(&sb, "(assert %s)\n", r)
	}
	sb.WriteString("(check-sat)\n")
	return sb.String()
}

// RunScript runs a one-shot solver on a script and returns the verdict.
func RunScript(kind string, script string, timeoutMs int) Result {
	var cmd *exec.Cmd
	switch kind {
	case "cvc5":
		cmd = exec.Command("cvc5", "--lang=smt2", fmt.Sprintf("--tlimit=%d", timeoutMs))
	default:
		cmd = exec.Command(kind, "-in", "-smt2", fmt.Sprintf("-t:%d", timeoutMs))
	}
	cmd.Stdin = strings.NewReader(script)
	out, _ := cmd.CombinedOutput()
	txt := string(out)
	if strings.Contains(txt, "(error") {
		return Unknown
	}
	for _, l := range strings.Split(txt, "\n") {
		switch strings.TrimSpace(l) {
		case "sat":
			return Sat
		case "unsat":
			return Unsat
		}
	}
	return Unknown
}
