// Package sym implements hash-consed SMT terms (Bool, fixed-width bit-vectors,
// IEEE-754 doubles) with constant folding, and their SMT-LIB2 rendering.
package sym

import (
	"fmt"
	"math"
	"math/bits"
	"strings"
)

type Op uint8

const (
	OpVar Op = iota
	OpConst
	// bool
	OpNot
	OpAnd
	OpOr
	OpIte
	OpEq
	// bv arithmetic
	OpAdd
	OpSub
	OpMul
	OpUDiv
	OpSDiv
	OpURem
	OpSRem
	OpBAnd
	OpBOr
	OpBXor
	OpShl
	OpLShr
	OpAShr
	OpNeg
	OpBNot
	OpULt
	OpULe
	OpSLt
	OpSLe
	OpConcat
	OpExtract // C=hi, C2=lo
	OpZExt    // C = extra bits
	OpSExt
	// fp
	OpFAdd
	OpFSub
	OpFMul
	OpFDiv
	OpFNeg
	OpFAbs
	OpFLt
	OpFLe
	OpFEq // IEEE equality
	OpFIsNaN
	OpFIsInf
	OpFFloor    // roundToIntegral RTN
	OpFTrunc    // roundToIntegral RTZ
	OpFFromBits // bv64 -> fp
	OpFFromSInt // signed bv -> fp (RNE)
	OpFFromUInt
	OpFToSInt // fp -> signed bv of width W (RTZ)
	OpFToUInt
	OpFToBits // fp -> bv64 (only defined via side variable; see Ctx.FToBits)
	OpApp     // uninterpreted function Name(args) of sort (Kind,W)
)

type Kind uint8

const (
	KBool Kind = iota
	KBV
	KFP // float64
)

type Term struct {
	Op   Op
	Kind Kind
	W    int // bit width for KBV
	Args []*Term
	C    uint64 // constant payload (bool: 0/1, bv: masked value, fp: IEEE bits); extract hi; ext amount
	C2   uint64 // extract lo
	Name string
	ID   int
}

func (t *Term) IsConst() bool { return t.Op == OpConst }
func (t *Term) IsTrue() bool  { return t.Op == OpConst && t.Kind == KBool && t.C == 1 }
func (t *Term) IsFalse() bool { return t.Op == OpConst && t.Kind == KBool && t.C == 0 }

// Ctx is a hash-consing term factory. Not safe for concurrent use.
type Ctx struct {
	tab    map[string]*Term
	nextID int
	True   *Term
	False  *Term
	Vars   []*Term // declaration order
	UFs    map[string]string
	UFList []string
	// side constraints introduced by encodings (e.g. FToBits); the path must assert them
	fresh int
}

func NewCtx() *Ctx {
	c := &Ctx{tab: map[string]*Term{}, UFs: map[string]string{}}
	c.True = c.mk(&Term{Op: OpConst, Kind: KBool, C: 1})
	c.False = c.mk(&Term{Op: OpConst, Kind: KBool, C: 0})
	return c
}

func (c *Ctx) key(t *Term) string {
	var sb strings.Builder
	fmt.Fprintf(&sb, "%d,%d,%d,%d,%d,%s", t.Op, t.Kind, t.W, t.C, t.C2, t.Name)
	for _, a := range t.Args {
		fmt.Fprintf(&sb, ",%d", a.ID)
	}
	return sb.String()
}

func (c *Ctx) mk(t *Term) *Term {
	k := c.key(t)
	if x, ok := c.tab[k]; ok {
		return x
	}
	c.nextID++
	t.ID = c.nextID
	c.tab[k] = t
	if t.Op == OpVar {
		c.Vars = append(c.Vars, t)
	}
	return t
}

func (c *Ctx) NumTerms() int { return c.nextID }

func mask(w int) uint64 {
	if w >= 64 {
		return ^uint64(0)
	}
	return (uint64(1) << uint(w)) - 1
}

func sext(v uint64, w int) int64 {
	if w >= 64 {
		return int64(v)
	}
	sh := uint(64 - w)
	return int64(v<<sh) >> sh
}

// ---- constructors ----

func (c *Ctx) Bool(b bool) *Term {
	if b {
		return c.True
	}
	return c.False
}

func (c *Ctx) BV(v uint64, w int) *Term {
	return c.mk(&Term{Op: OpConst, Kind: KBV, W: w, C: v & mask(w)})
}

func (c *Ctx) FP(f float64) *Term {
	return c.mk(&Term{Op: OpConst, Kind: KFP, W: 64, C: math.Float64bits(f)})
}

func (c *Ctx) FPBits(b uint64) *Term {
	return c.mk(&Term{Op: OpConst, Kind: KFP, W: 64, C: b})
}

func (c *Ctx) Var(name string, k Kind, w int) *Term {
	return c.mk(&Term{Op: OpVar, Kind: k, W: w, Name: name})
}

func (c *Ctx) BoolVar(name string) *Term { return c.Var(name, KBool, 0) }
func (c *Ctx) BVVar(name string, w int) *Term {
	return c.Var(name, KBV, w)
}

// Fresh returns a fresh variable name with the given stem.
func (c *Ctx) Fresh(stem string) string {
	c.fresh++
	return fmt.Sprintf("%s!f%d", stem, c.fresh)
}

func (c *Ctx) Not(a *Term) *Term {
	if a.IsConst() {
		return c.Bool(a.C == 0)
	}
	if a.Op == OpNot {
		return a.Args[0]
	}
	return c.mk(&Term{Op: OpNot, Kind: KBool, Args: []*Term{a}})
}

func (c *Ctx) And(xs ...*Term) *Term {
	var out []*Term
	seen := map[int]bool{}
	for _, x := range xs {
		if x.IsFalse() {
			return c.False
		}
		if x.IsTrue() {
			continue
		}
		if x.Op == OpAnd {
			for _, y := range x.Args {
				if !seen[y.ID] {
					seen[y.ID] = true
					out = append(out, y)
				}
			}
			continue
		}
		if !seen[x.ID] {
			seen[x.ID] = true
			out = append(out, x)
		}
	}
	for _, x := range out {
		if x.Op == OpNot && seen[x.Args[0].ID] {
			return c.False
		}
	}
	if len(out) == 0 {
		return c.True
	}
	if len(out) == 1 {
		return out[0]
	}
	return c.mk(&Term{Op: OpAnd, Kind: KBool, Args: out})
}

func (c *Ctx) Or(xs ...*Term) *Term {
	var out []*Term
	seen := map[int]bool{}
	for _, x := range xs {
		if x.IsTrue() {
			return c.True
		}
		if x.IsFalse() {
			continue
		}
		if x.Op == OpOr {
			for _, y := range x.Args {
				if !seen[y.ID] {
					seen[y.ID] = true
					out = append(out, y)
				}
			}
			continue
		}
		if !seen[x.ID] {
			seen[x.ID] = true
			out = append(out, x)
		}
	}
	for _, x := range out {
		if x.Op == OpNot && seen[x.Args[0].ID] {
			return c.True
		}
	}
	if len(out) == 0 {
		return c.False
	}
	if len(out) == 1 {
		return out[0]
	}
	return c.mk(&Term{Op: OpOr, Kind: KBool, Args: out})
}

func (c *Ctx) Implies(a, b *Term) *Term { return c.Or(c.Not(a), b) }

func (c *Ctx) Ite(cond, a, b *Term) *Term {
	if cond.IsTrue() {
		return a
	}
	if cond.IsFalse() {
		return b
	}
	if a == b {
		return a
	}
	if a.Kind == KBool {
		if a.IsTrue() && b.IsFalse() {
			return cond
		}
		if a.IsFalse() && b.IsTrue() {
			return c.Not(cond)
		}
		if a.IsTrue() {
			return c.Or(cond, b)
		}
		if a.IsFalse() {
			return c.And(c.Not(cond), b)
		}
		if b.IsTrue() {
			return c.Or(c.Not(cond), a)
		}
		if b.IsFalse() {
			return c.And(cond, a)
		}
	}
	return c.mk(&Term{Op: OpIte, Kind: a.Kind, W: a.W, Args: []*Term{cond, a, b}})
}

// Eq is structural equality (SMT "="); for FP use FEq for IEEE ==.
func (c *Ctx) Eq(a, b *Term) *Term {
	if a == b {
		return c.True
	}
	if a.Kind != b.Kind || (a.Kind == KBV && a.W != b.W) {
		panic(fmt.Sprintf("sym.Eq: sort mismatch %v/%d vs %v/%d", a.Kind, a.W, b.Kind, b.W))
	}
	if a.IsConst() && b.IsConst() {
		return c.Bool(a.C == b.C)
	}
	if a.Kind == KBool {
		if a.IsConst() {
			a, b = b, a
		}
		if b.IsTrue() {
			return a
		}
		if b.IsFalse() {
			return c.Not(a)
		}
	}
	// ite(c, k1, k2) == k  with constants
	if b.IsConst() && a.Op == OpIte && a.Args[1].IsConst() && a.Args[2].IsConst() {
		return c.Ite(a.Args[0], c.Eq(a.Args[1], b), c.Eq(a.Args[2], b))
	}
	if a.IsConst() && b.Op == OpIte && b.Args[1].IsConst() && b.Args[2].IsConst() {
		return c.Ite(b.Args[0], c.Eq(b.Args[1], a), c.Eq(b.Args[2], a))
	}
	// zext(x) == const
	if b.IsConst() && a.Op == OpZExt {
		x := a.Args[0]
		if b.C > mask(x.W) {
			return c.False
		}
		return c.Eq(x, c.BV(b.C, x.W))
	}
	if a.IsConst() && b.Op == OpZExt {
		return c.Eq(b, a)
	}
	if a.ID > b.ID {
		a, b = b, a
	}
	return c.mk(&Term{Op: OpEq, Kind: KBool, Args: []*Term{a, b}})
}

func (c *Ctx) bvbin(op Op, a, b *Term) *Term {
	if a.Kind != KBV || b.Kind != KBV || a.W != b.W {
		panic(fmt.Sprintf("sym.bvbin(%d): sort mismatch %v/%d vs %v/%d", op, a.Kind, a.W, b.Kind, b.W))
	}
	w := a.W
	if a.IsConst() && b.IsConst() {
		x, y := a.C, b.C
		var r uint64
		switch op {
		case OpAdd:
			r = x + y
		case OpSub:
			r = x - y
		case OpMul:
			r = x * y
		case OpUDiv:
			if y == 0 {
				r = mask(w)
			} else {
				r = x / y
			}
		case OpURem:
			if y == 0 {
				r = x
			} else {
				r = x % y
			}
		case OpSDiv:
			sx, sy := sext(x, w), sext(y, w)
			if sy == 0 {
				if sx >= 0 {
					r = mask(w)
				} else {
					r = 1
				}
			} else if sy == -1 {
				r = uint64(-sx)
			} else {
				r = uint64(sx / sy)
			}
		case OpSRem:
			sx, sy := sext(x, w), sext(y, w)
			if sy == 0 {
				r = x
			} else if sy == -1 {
				r = 0
			} else {
				r = uint64(sx % sy)
			}
		case OpBAnd:
			r = x & y
		case OpBOr:
			r = x | y
		case OpBXor:
			r = x ^ y
		case OpShl:
			if y >= uint64(w) {
				r = 0
			} else {
				r = x << y
			}
		case OpLShr:
			if y >= uint64(w) {
				r = 0
			} else {
				r = x >> y
			}
		case OpAShr:
			sx := sext(x, w)
			if y >= uint64(w) {
				if sx < 0 {
					r = mask(w)
				} else {
					r = 0
				}
			} else {
				r = uint64(sx >> y)
			}
		}
		return c.BV(r, w)
	}
	// identities
	switch op {
	case OpAdd, OpBOr, OpBXor:
		if a.IsConst() && a.C == 0 {
			return b
		}
		if b.IsConst() && b.C == 0 {
			return a
		}
	case OpSub, OpShl, OpLShr, OpAShr:
		if b.IsConst() && b.C == 0 {
			return a
		}
	case OpMul:
		if a.IsConst() && a.C == 1 {
			return b
		}
		if b.IsConst() && b.C == 1 {
			return a
		}
		if (a.IsConst() && a.C == 0) || (b.IsConst() && b.C == 0) {
			return c.BV(0, w)
		}
	case OpBAnd:
		if (a.IsConst() && a.C == 0) || (b.IsConst() && b.C == 0) {
			return c.BV(0, w)
		}
		if a.IsConst() && a.C == mask(w) {
			return b
		}
		if b.IsConst() && b.C == mask(w) {
			return a
		}
	}
	return c.mk(&Term{Op: op, Kind: KBV, W: w, Args: []*Term{a, b}})
}

func (c *Ctx) Add(a, b *Term) *Term  { return c.bvbin(OpAdd, a, b) }
func (c *Ctx) Sub(a, b *Term) *Term  { return c.bvbin(OpSub, a, b) }
func (c *Ctx) Mul(a, b *Term) *Term  { return c.bvbin(OpMul, a, b) }
func (c *Ctx) UDiv(a, b *Term) *Term { return c.bvbin(OpUDiv, a, b) }
func (c *Ctx) SDiv(a, b *Term) *Term { return c.bvbin(OpSDiv, a, b) }
func (c *Ctx) URem(a, b *Term) *Term { return c.bvbin(OpURem, a, b) }
func (c *Ctx) SRem(a, b *Term) *Term { return c.bvbin(OpSRem, a, b) }
func (c *Ctx) BAnd(a, b *Term) *Term { return c.bvbin(OpBAnd, a, b) }
func (c *Ctx) BOr(a, b *Term) *Term  { return c.bvbin(OpBOr, a, b) }
func (c *Ctx) BXor(a, b *Term) *Term { return c.bvbin(OpBXor, a, b) }
func (c *Ctx) Shl(a, b *Term) *Term  { return c.bvbin(OpShl, a, b) }
func (c *Ctx) LShr(a, b *Term) *Term { return c.bvbin(OpLShr, a, b) }
func (c *Ctx) AShr(a, b *Term) *Term { return c.bvbin(OpAShr, a, b) }

func (c *Ctx) Neg(a *Term) *Term {
	if a.IsConst() {
		return c.BV(-a.C, a.W)
	}
	return c.mk(&Term{Op: OpNeg, Kind: KBV, W: a.W, Args: []*Term{a}})
}

func (c *Ctx) BNot(a *Term) *Term {
	if a.IsConst() {
		return c.BV(^a.C, a.W)
	}
	return c.mk(&Term{Op: OpBNot, Kind: KBV, W: a.W, Args: []*Term{a}})
}

func (c *Ctx) bvcmp(op Op, a, b *Term) *Term {
	if a.Kind != KBV || b.Kind != KBV || a.W != b.W {
		panic(fmt.Sprintf("sym.bvcmp: sort mismatch %v/%d vs %v/%d", a.Kind, a.W, b.Kind, b.W))
	}
	if a.IsConst() && b.IsConst() {
		switch op {
		case OpULt:
			return c.Bool(a.C < b.C)
		case OpULe:
			return c.Bool(a.C <= b.C)
		case OpSLt:
			return c.Bool(sext(a.C, a.W) < sext(b.C, b.W))
		case OpSLe:
			return c.Bool(sext(a.C, a.W) <= sext(b.C, b.W))
		}
	}
	if a == b {
		return c.Bool(op == OpULe || op == OpSLe)
	}
	if op == OpULt && b.IsConst() && b.C == 0 {
		return c.False
	}
	if op == OpULe && a.IsConst() && a.C == 0 {
		return c.True
	}
	return c.mk(&Term{Op: op, Kind: KBool, Args: []*Term{a, b}})
}

func (c *Ctx) ULt(a, b *Term) *Term { return c.bvcmp(OpULt, a, b) }
func (c *Ctx) ULe(a, b *Term) *Term { return c.bvcmp(OpULe, a, b) }
func (c *Ctx) SLt(a, b *Term) *Term { return c.bvcmp(OpSLt, a, b) }
func (c *Ctx) SLe(a, b *Term) *Term { return c.bvcmp(OpSLe, a, b) }

func (c *Ctx) Concat(hi, lo *Term) *Term {
	if hi.IsConst() && lo.IsConst() && hi.W+lo.W <= 64 {
		return c.BV(hi.C<<uint(lo.W)|lo.C, hi.W+lo.W)
	}
	return c.mk(&Term{Op: OpConcat, Kind: KBV, W: hi.W + lo.W, Args: []*Term{hi, lo}})
}

func (c *Ctx) Extract(a *Term, hi, lo int) *Term {
	if lo == 0 && hi == a.W-1 {
		return a
	}
	w := hi - lo + 1
	if a.IsConst() {
		return c.BV(a.C>>uint(lo), w)
	}
	if a.Op == OpConcat {
		l := a.Args[1]
		h := a.Args[0]
		if hi < l.W {
			return c.Extract(l, hi, lo)
		}
		if lo >= l.W {
			return c.Extract(h, hi-l.W, lo-l.W)
		}
	}
	if (a.Op == OpZExt || a.Op == OpSExt) && hi < a.Args[0].W {
		return c.Extract(a.Args[0], hi, lo)
	}
	return c.mk(&Term{Op: OpExtract, Kind: KBV, W: w, Args: []*Term{a}, C: uint64(hi), C2: uint64(lo)})
}

func (c *Ctx) ZExt(a *Term, to int) *Term {
	if to == a.W {
		return a
	}
	if to < a.W {
		return c.Extract(a, to-1, 0)
	}
	if a.IsConst() {
		return c.BV(a.C, to)
	}
	return c.mk(&Term{Op: OpZExt, Kind: KBV, W: to, Args: []*Term{a}, C: uint64(to - a.W)})
}

func (c *Ctx) SExt(a *Term, to int) *Term {
	if to == a.W {
		return a
	}
	if to < a.W {
		return c.Extract(a, to-1, 0)
	}
	if a.IsConst() {
		return c.BV(uint64(sext(a.C, a.W)), to)
	}
	return c.mk(&Term{Op: OpSExt, Kind: KBV, W: to, Args: []*Term{a}, C: uint64(to - a.W)})
}

// ---- floating point ----

func fl(t *Term) float64 { return math.Float64frombits(t.C) }

func (c *Ctx) fpbin(op Op, a, b *Term) *Term {
	if a.Kind != KFP || b.Kind != KFP {
		panic("sym.fpbin: not fp")
	}
	if a.IsConst() && b.IsConst() {
		x, y := fl(a), fl(b)
		switch op {
		case OpFAdd:
			return c.FP(x + y)
		case OpFSub:
			return c.FP(x - y)
		case OpFMul:
			return c.FP(x * y)
		case OpFDiv:
			return c.FP(x / y)
		}
	}
	return c.mk(&Term{Op: op, Kind: KFP, W: 64, Args: []*Term{a, b}})
}

func (c *Ctx) FAdd(a, b *Term) *Term { return c.fpbin(OpFAdd, a, b) }
func (c *Ctx) FSub(a, b *Term) *Term { return c.fpbin(OpFSub, a, b) }
func (c *Ctx) FMul(a, b *Term) *Term { return c.fpbin(OpFMul, a, b) }
func (c *Ctx) FDiv(a, b *Term) *Term { return c.fpbin(OpFDiv, a, b) }

func (c *Ctx) fpcmp(op Op, a, b *Term) *Term {
	if a.Kind != KFP || b.Kind != KFP {
		panic("sym.fpcmp: not fp")
	}
	if a.IsConst() && b.IsConst() {
		x, y := fl(a), fl(b)
		switch op {
		case OpFLt:
			return c.Bool(x < y)
		case OpFLe:
			return c.Bool(x <= y)
		case OpFEq:
			return c.Bool(x == y)
		}
	}
	return c.mk(&Term{Op: op, Kind: KBool, Args: []*Term{a, b}})
}

func (c *Ctx) FLt(a, b *Term) *Term { return c.fpcmp(OpFLt, a, b) }
func (c *Ctx) FLe(a, b *Term) *Term { return c.fpcmp(OpFLe, a, b) }
func (c *Ctx) FEq(a, b *Term) *Term { return c.fpcmp(OpFEq, a, b) }

func (c *Ctx) fpun(op Op, a *Term) *Term {
	if a.Kind != KFP {
		panic("sym.fpun: not fp")
	}
	if a.IsConst() {
		x := fl(a)
		switch op {
		case OpFNeg:
			return c.FP(-x)
		case OpFAbs:
			return c.FP(math.Abs(x))
		case OpFFloor:
			return c.FP(math.Floor(x))
		case OpFTrunc:
			return c.FP(math.Trunc(x))
		case OpFIsNaN:
			return c.Bool(math.IsNaN(x))
		case OpFIsInf:
			return c.Bool(math.IsInf(x, 0))
		}
	}
	k := KFP
	if op == OpFIsNaN || op == OpFIsInf {
		k = KBool
	}
	return c.mk(&Term{Op: op, Kind: k, W: 64, Args: []*Term{a}})
}

func (c *Ctx) FNeg(a *Term) *Term   { return c.fpun(OpFNeg, a) }
func (c *Ctx) FAbs(a *Term) *Term   { return c.fpun(OpFAbs, a) }
func (c *Ctx) FFloor(a *Term) *Term { return c.fpun(OpFFloor, a) }
func (c *Ctx) FTrunc(a *Term) *Term { return c.fpun(OpFTrunc, a) }
func (c *Ctx) FIsNaN(a *Term) *Term { return c.fpun(OpFIsNaN, a) }
func (c *Ctx) FIsInf(a *Term) *Term { return c.fpun(OpFIsInf, a) }

func (c *Ctx) FFromBits(a *Term) *Term {
	if a.Kind != KBV || a.W != 64 {
		panic("sym.FFromBits: need bv64")
	}
	if a.IsConst() {
		return c.FPBits(a.C)
	}
	return c.mk(&Term{Op: OpFFromBits, Kind: KFP, W: 64, Args: []*Term{a}})
}

func (c *Ctx) FFromSInt(a *Term) *Term {
	if a.IsConst() {
		return c.FP(float64(sext(a.C, a.W)))
	}
	return c.mk(&Term{Op: OpFFromSInt, Kind: KFP, W: 64, Args: []*Term{a}})
}

func (c *Ctx) FFromUInt(a *Term) *Term {
	if a.IsConst() {
		return c.FP(float64(a.C))
	}
	return c.mk(&Term{Op: OpFFromUInt, Kind: KFP, W: 64, Args: []*Term{a}})
}

func (c *Ctx) FToSInt(a *Term, w int) *Term {
	if a.IsConst() {
		return c.BV(uint64(int64(fl(a))), w)
	}
	return c.mk(&Term{Op: OpFToSInt, Kind: KBV, W: w, Args: []*Term{a}})
}

func (c *Ctx) FToUInt(a *Term, w int) *Term {
	if a.IsConst() {
		return c.BV(uint64(fl(a)), w)
	}
	return c.mk(&Term{Op: OpFToUInt, Kind: KBV, W: w, Args: []*Term{a}})
}

// FToBits returns a bv64 term b and a side constraint that must be asserted on the
// path (fp(b) = a structurally). For FFromBits(x) it returns x with no constraint.
func (c *Ctx) FToBits(a *Term) (*Term, *Term) {
	if a.IsConst() {
		return c.BV(a.C, 64), c.True
	}
	if a.Op == OpFFromBits {
		return a.Args[0], c.True
	}
	v := c.BVVar(fmt.Sprintf("fbits!%d", a.ID), 64)
	return v, c.Eq(c.FFromBits(v), a)
}

// App builds an uninterpreted function application.
func (c *Ctx) App(name string, k Kind, w int, args ...*Term) *Term {
	sig := ""
	for _, a := range args {
		sig += SortString(a.Kind, a.W) + " "
	}
	decl := fmt.Sprintf("(declare-fun %s (%s) %s)", name, strings.TrimSpace(sig), SortString(k, w))
	if old, ok := c.UFs[name]; ok {
		if old != decl {
			panic("sym.App: conflicting declaration of " + name)
		}
	} else {
		c.UFs[name] = decl
		c.UFList = append(c.UFList, name)
	}
	return c.mk(&Term{Op: OpApp, Kind: k, W: w, Name: name, Args: args})
}

func SortString(k Kind, w int) string {
	switch k {
	case KBool:
		return "Bool"
	case KBV:
		return fmt.Sprintf("(_ BitVec %d)", w)
	case KFP:
		return "(_ FloatingPoint 11 53)"
	}
	return "?"
}

func (t *Term) Sort() string { return SortString(t.Kind, t.W) }

// ConstInt64 returns the signed value of a constant BV term.
func (t *Term) ConstInt64() int64 { return sext(t.C, t.W) }

var _ = bits.Len64

// ---- SMT-LIB rendering ----

func QuoteName(n string) string {
	ok := true
	for _, r := range n {
		if !(r >= 'a' && r <= 'z' || r >= 'A' && r <= 'Z' || r >= '0' && r <= '9' || r == '_' || r == '!' || r == '.') {
			ok = false
		}
	}
	if ok && len(n) > 0 && !(n[0] >= '0' && n[0] <= '9') && n[0] != '#' {
		return n
	}
	return "|" + strings.ReplaceAll(strings.ReplaceAll(n, "|", "!"), "\\", "!") + "|"
}

func bvLit(v uint64, w int) string {
	if w%4 == 0 {
		return fmt.Sprintf("#x%0*x", w/4, v&mask(w))
	}
	return fmt.Sprintf("#b%0*b", w, v&mask(w))
}

// Render renders the node t with children referenced by ref(child).
func Render(t *Term, ref func(*Term) string) string {
	a := func(i int) string { return ref(t.Args[i]) }
	bin := func(op string) string { return "(" + op + " " + a(0) + " " + a(1) + ")" }
	switch t.Op {
	case OpVar:
		return QuoteName(t.Name)
	case OpConst:
		switch t.Kind {
		case KBool:
			if t.C == 1 {
				return "true"
			}
			return "false"
		case KBV:
			return bvLit(t.C, t.W)
		case KFP:
			return fmt.Sprintf("(fp #b%01b #b%011b #b%052b)", t.C>>63, (t.C>>52)&0x7ff, t.C&((1<<52)-1))
		}
	case OpNot:
		return "(not " + a(0) + ")"
	case OpAnd, OpOr:
		op := "and"
		if t.Op == OpOr {
			op = "or"
		}
		var sb strings.Builder
		sb.WriteString("(" + op)
		for i := range t.Args {
			sb.WriteString(" " + a(i))
		}
		sb.WriteString(")")
		return sb.String()
	case OpIte:
		return "(ite " + a(0) + " " + a(1) + " " + a(2) + ")"
	case OpEq:
		return bin("=")
	case OpAdd:
		return bin("bvadd")
	case OpSub:
		return bin("bvsub")
	case OpMul:
		return bin("bvmul")
	case OpUDiv:
		return bin("bvudiv")
	case OpSDiv:
		return bin("bvsdiv")
	case OpURem:
		return bin("bvurem")
	case OpSRem:
		return bin("bvsrem")
	case OpBAnd:
		return bin("bvand")
	case OpBOr:
		return bin("bvor")
	case OpBXor:
		return bin("bvxor")
	case OpShl:
		return bin("bvshl")
	case OpLShr:
		return bin("bvlshr")
	case OpAShr:
		return bin("bvashr")
	case OpNeg:
		return "(bvneg " + a(0) + ")"
	case OpBNot:
		return "(bvnot " + a(0) + ")"
	case OpULt:
		return bin("bvult")
	case OpULe:
		return bin("bvule")
	case OpSLt:
		return bin("bvslt")
	case OpSLe:
		return bin("bvsle")
	case OpConcat:
		return bin("concat")
	case OpExtract:
		return fmt.Sprintf("((_ extract %d %d) %s)", t.C, t.C2, a(0))
	case OpZExt:
		return fmt.Sprintf("((_ zero_extend %d) %s)", t.C, a(0))
	case OpSExt:
		return fmt.Sprintf("((_ sign_extend %d) %s)", t.C, a(0))
	case OpFAdd:
		return "(fp.add RNE " + a(0) + " " + a(1) + ")"
	case OpFSub:
		return "(fp.sub RNE " + a(0) + " " + a(1) + ")"
	case OpFMul:
		return "(fp.mul RNE " + a(0) + " " + a(1) + ")"
	case OpFDiv:
		return "(fp.div RNE " + a(0) + " " + a(1) + ")"
	case OpFNeg:
		return "(fp.neg " + a(0) + ")"
	case OpFAbs:
		return "(fp.abs " + a(0) + ")"
	case OpFLt:
		return bin("fp.lt")
	case OpFLe:
		return bin("fp.leq")
	case OpFEq:
		return bin("fp.eq")
	case OpFIsNaN:
		return "(fp.isNaN " + a(0) + ")"
	case OpFIsInf:
		return "(fp.isInfinite " + a(0) + ")"
	case OpFFloor:
		return "(fp.roundToIntegral RTN " + a(0) + ")"
	case OpFTrunc:
		return "(fp.roundToIntegral RTZ " + a(0) + ")"
	case OpFFromBits:
		return "((_ to_fp 11 53) " + a(0) + ")"
	case OpFFromSInt:
		return "((_ to_fp 11 53) RNE " + a(0) + ")"
	case OpFFromUInt:
		return "((_ to_fp_unsigned 11 53) RNE " + a(0) + ")"
	case OpFToSInt:
		return fmt.Sprintf("((_ fp.to_sbv %d) RTZ %s)", t.W, a(0))
	case OpFToUInt:
		return fmt.Sprintf("((_ fp.to_ubv %d) RTZ %s)", t.W, a(0))
	case OpApp:
		if len(t.Args) == 0 {
			return QuoteName(t.Name)
		}
		var sb strings.Builder
		sb.WriteString("(" + QuoteName(t.Name))
		for i := range t.Args {
			sb.WriteString(" " + a(i))
		}
		sb.WriteString(")")
		return sb.String()
	}
	panic(fmt.Sprintf("sym.Render: op %d", t.Op))
}

// String renders a term as a tree (debugging / small terms).
func (t *Term) String() string {
	var ref func(*Term) string
	ref = func(x *Term) string { return Render(x, ref) }
	return ref(t)
}

// Eval evaluates t under a full assignment of its variables (bv/bool values as uint64).
// UF applications are not supported (returns ok=false).
func Eval(t *Term, env map[string]uint64) (uint64, bool) {
	c := NewCtx()
	memo := map[*Term]*Term{}
	var rec func(x *Term) *Term
	rec = func(x *Term) *Term {
		if r, ok := memo[x]; ok {
			return r
		}
		var r *Term
		switch x.Op {
		case OpVar:
			v, ok := env[x.Name]
			if !ok {
				v = 0
			}
			switch x.Kind {
			case KBool:
				r = c.Bool(v != 0)
			case KBV:
				r = c.BV(v, x.W)
			default:
				r = c.FPBits(v)
			}
		case OpConst:
			r = c.mk(&Term{Op: OpConst, Kind: x.Kind, W: x.W, C: x.C})
		default:
			args := make([]*Term, len(x.Args))
			for i, a := range x.Args {
				args[i] = rec(a)
				if args[i] == nil {
					return nil
				}
			}
			r = c.rebuild(x, args)
		}
		memo[x] = r
		return r
	}
	r := rec(t)
	if r == nil || !r.IsConst() {
		return 0, false
	}
	return r.C, true
}

// Subst rebuilds t with variables replaced according to bind (var term -> replacement),
// re-applying constant folding. memo caches results by term id for this binding set.
func (c *Ctx) Subst(t *Term, bind map[*Term]*Term, memo map[int]*Term) *Term {
	if r, ok := memo[t.ID]; ok {
		return r
	}
	var r *Term
	switch t.Op {
	case OpConst:
		r = t
	case OpVar:
		if b, ok := bind[t]; ok {
			r = b
		} else {
			r = t
		}
	default:
		changed := false
		args := make([]*Term, len(t.Args))
		for i, a := range t.Args {
			args[i] = c.Subst(a, bind, memo)
			if args[i] != a {
				changed = true
			}
		}
		if !changed {
			r = t
		} else if t.Op == OpApp {
			r = c.App(t.Name, t.Kind, t.W, args...)
		} else {
			r = c.rebuild(t, args)
			if r == nil {
				r = t
			}
		}
	}
	memo[t.ID] = r
	return r
}

func (c *Ctx) rebuild(x *Term, a []*Term) *Term {
	switch x.Op {
	case OpNot:
		return c.Not(a[0])
	case OpAnd:
		return c.And(a...)
	case OpOr:
		return c.Or(a...)
	case OpIte:
		return c.Ite(a[0], a[1], a[2])
	case OpEq:
		return c.Eq(a[0], a[1])
	case OpAdd, OpSub, OpMul, OpUDiv, OpSDiv, OpURem, OpSRem, OpBAnd, OpBOr, OpBXor, OpShl, OpLShr, OpAShr:
		return c.bvbin(x.Op, a[0], a[1])
	case OpNeg:
		return c.Neg(a[0])
	case OpBNot:
		return c.BNot(a[0])
	case OpULt, OpULe, OpSLt, OpSLe:
		return c.bvcmp(x.Op, a[0], a[1])
	case OpConcat:
		return c.Concat(a[0], a[1])
	case OpExtract:
		return c.Extract(a[0], int(x.C), int(x.C2))
	case OpZExt:
		return c.ZExt(a[0], x.W)
	case OpSExt:
		return c.SExt(a[0], x.W)
	case OpFAdd, OpFSub, OpFMul, OpFDiv:
		return c.fpbin(x.Op, a[0], a[1])
	case OpFNeg, OpFAbs, OpFFloor, OpFTrunc, OpFIsNaN, OpFIsInf:
		return c.fpun(x.Op, a[0])
	case OpFLt, OpFLe, OpFEq:
		return c.fpcmp(x.Op, a[0], a[1])
	case OpFFromBits:
		return c.FFromBits(a[0])
	case OpFFromSInt:
		return c.FFromSInt(a[0])
	case OpFFromUInt:
		return c.FFromUInt(a[0])
	case OpFToSInt:
		return c.FToSInt(a[0], x.W)
	case OpFToUInt:
		return c.FToUInt(a[0], x.W)
	}
	return nil
}
